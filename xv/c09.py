"""C09 - running a command leaves the shell session as it found it.

Bounded-exhaustive enumeration of pipeline shapes x single-fault enumeration, on the real
implementation: every case runs its command line 3 times through `XSH.execer.exec` in its own
forked process (xv/c09_child.py) and the process is inspected from the outside (open fds,
threads, children, cwd, sys.std*, signal handlers, environment, a self-sent SIGINT).

Oracle (differential, from the statement - no expected values): the state after 1 repetition and
after 3 repetitions equals the state before.  What the command does (errors, return codes,
exceptions) is irrelevant; only the SESSION is judged.

SPACE  pipelines of 1-2 stages (thorough: 3) x stage kind {external ok/fail, missing command,
non-executable file / directory on $PATH, threaded alias ok/raises/SystemExit/returns 1,
unthreadable alias ok/raises ...} x capture {bare, $(), !(), $[], ![]} x redirect {none, > out.txt,
< missing.txt, 2>&1, a>p}; plus the early-exit shapes (producer still writing when the consumer
leaves).  Quick: at most 2 of {each stage kind, capture, redirect} differ from (ext ok, bare, none).
FAULTS for every 1- and 2-stage kind combination under bare and $() (plus redirect shapes): the
acquisition calls the procs modules make (os.pipe in procs.pipes, pty.openpty, specs' open,
subprocess.Popen, threading.Thread.start) are logged in a fault-free run, then the shape is re-run
once per logged call with exactly that call failing (EMFILE; FileNotFoundError / PermissionError /
EAGAIN and the non-OSErrors ValueError / TypeError for Popen; RuntimeError for Thread.start), same
oracle.  THREE-STAGE EARLY EXIT (both tiers): <endless or slow producer> | <middle that leaves after
one line> | <reader until EOF>, external and alias kinds in each position, under the per-case alarm
(a wedge is `hang:<shape>`).  LONG-LIVED UPSTREAM (both tiers): a stage that lives 4.2 s and never
touches its pipe (external `sleeper`, alias `tsleep`) in front of a fast last stage, under every
wait path (capture form x external/alias last stage); besides the usual snapshots the stages are
counted right when the command returns (0.3 s grace): `returned-early[child|ProcProxyThread]` unless
the same stage is also reported as left running / un-reaped; these shapes keep their own keys
(no reduction across capture forms: the wait path is the point).  NUL family: the natural non-OSError spawn failure - an exported
variable containing a NUL byte makes Popen() raise ValueError - and a NUL in argv as control.

Does NOT require:
  * anything for `&` background commands (not generated);
  * a particular identity of the SIGINT handler: a changed handler is only a violation when it is
    a bound method of a *finished* thread object (Ctrl-C is then addressed to a dead stage) or
    when the behavioural probe (self-sent SIGINT -> KeyboardInterrupt in the main thread) fails;
    TSTP/QUIT/WINCH handlers likewise only when left pointing at a finished thread;
  * fds / children that a pending finalizer releases (gc.collect() and CPython's own deferred
    reaping of collected Popen objects, subprocess._cleanup(), run before every snapshot);
    what is still open/un-reaped after that is held by live session state (e.g. XSH.lastcmd) and
    counts - flagged `bounded` when it does not grow with repetitions, `grows` when it does;
  * values of documented per-command variables (c09_child.VOLATILE_ENV), contents of files the
    redirect names, exceptions/return codes of the command;
  * in the main space the case process has no controlling terminal; terminal ownership is judged
    in the TERMINAL family only: a session leader on a harness pty with $XONSH_INTERACTIVE on runs
    uncaptured external commands {ok, fail, killed by a signal, missing} and their 2-stage pipelines
    x {no flag, $XONSH_SUBPROC_CMD_RAISE_ERROR, @error_raise, @error_ignore} x {bare, ![ ]}; after 1
    and 3 repetitions tcgetpgrp(tty) must be the shell's group and tcgetattr unchanged (keys
    `tty-owner:<shape>:<flag>:<capture>`; a shell left stopped by SIGTTOU/SIGTTIN is a `hang[...]`).

Violation keys: `<resource>[<detail>,<bounded|grows>]:<minimal kind signature>:<capture>:<redirect>
[:fault=<call>#<n>@<thread role>:<error>]`.  Many inputs share a root cause, so a violating case
is first reduced (drop the fault / turn the failing Popen into a missing command, capture -> bare,
redirect -> none, stage kind -> its class representative -> ext_ok, drop a stage) as long as the
reduced case - taken from the enumerated results, executed on demand when it was not enumerated -
shows the *same* resource signature; the key names the fixpoint.  A different defect survives
reduction at a different shape or with a different signature, hence a new key.

Real threads run in real time here, so three guards keep the verdict independent of scheduling:
  * observations of the scheduling-sensitive classes (child/thread left, Ctrl-C probe, ...) and
    every provisional key carried by fewer than 3 cases count only when the same case shows them
    in 3 runs out of 3 (dropped ones are counted in the evidence, never reported);
  * a run in which a stage thread died inside xonsh's own code (not in the alias; seen through
    threading.excepthook) is keyed by that death - `stage-thread-died[<class>:<error>@<where>]`
    when reproduced 3/3, `race:stage-thread-died[<class>]` when intermittent - because where the
    thread died is the root cause and the shape only decides the timing;
  * damage to sys.std* (stage threads swap the process-global streams) is keyed by the number of
    threaded stages, `stdio[...]:threaded-stages=<n>[:with-fault]`, not by the exact shape.
"""

import itertools
from collections import Counter

from . import c09_child as H
from . import common

LEVEL = "fault_enumeration"

KINDS = ["ext_ok", "ext_fail", "nosuch", "nonexec", "dir", "thr_ok", "thr_raise", "thr_exit", "thr_rc1", "unthr_ok", "unthr_raise"]
KINDS_EXTRA = ["nonexec_rel", "thr_early", "unthr_exit", "unthr_rc1"]  # thorough, 1-2 stages
CAPTURES = ["bare", "$()", "!()", "$[]", "![]"]
REDIRECTS = ["none", ">out", "<missing", "2>&1", "a>p"]  # a>p only with >= 2 stages

EARLY_QUICK = [
    ("ext_slowbig", "ext_head1"),
    ("ext_big", "ext_head1"),
    ("thr_big", "ext_head1"),
    ("ext_slowbig", "thr_head1"),
]
EARLY_THOROUGH = EARLY_QUICK + [
    ("ext_big", "thr_head1"),
    ("thr_big", "thr_head1"),
    ("ext_big", "thr_early"),
    ("ext_slowbig", "thr_early"),
    ("thr_big", "thr_early"),
    ("ext_big", "ext_ok"),
    ("ext_slowbig", "ext_fail"),
    ("ext_big", "ext_eat"),
    ("thr_big", "ext_eat"),
    ("ext_big", "nosuch"),
    ("thr_big", "nosuch"),
    ("ext_slowbig", "ext_head1", "ext_eat"),
    ("ext_big", "ext_eat", "ext_head1"),
]

# three stages: <endless or slow producer> | <middle that leaves after one line> | <reader until
# EOF>.  The reader only ends when xonsh releases the MIDDLE stage's pipe write end while the
# FIRST stage is still running; external and alias kinds in every position (quick too)
EARLY3 = [(p, m, r) for p in ("ext_slowbig", "thr_slowbig", "ext_big") for m in ("ext_head1", "thr_head1") for r in ("ext_eat", "thr_ok")]

# a long-lived upstream stage that never touches its pipe (closing the pipe does not stop it) in
# front of a fast last stage: the command may only return once that stage is over and reaped
SLEEP_QUICK = [
    (("ext_sleep", "ext_ok"), "!()"),
    (("ext_sleep", "ext_ok"), "$()"),
    (("ext_sleep", "ext_ok", "thr_ok"), "bare"),
    (("thr_sleep", "ext_ok"), "!()"),
]
SLEEP_THOROUGH = [((u, l), c) for u in ("ext_sleep", "thr_sleep") for l in ("ext_ok", "thr_ok") for c in CAPTURES] + [
    ((u, "ext_ok", l), c) for u in ("ext_sleep", "thr_sleep") for l in ("ext_ok", "thr_ok") for c in ("bare", "!()")
]

# spawn failures that are not OSErrors, the natural way: an exported variable with a NUL byte makes
# every Popen() raise ValueError('embedded null byte'); a NUL in argv is escaped by xonsh (control)
NUL_SHAPES_QUICK = [(("ext_ok",), c) for c in CAPTURES] + [(st, c) for st in (("ext_ok", "ext_ok"), ("thr_ok", "ext_ok"), ("ext_ok", "thr_ok")) for c in ("bare", "$()")]
NUL_KINDS_THOROUGH = ["ext_ok", "thr_ok", "thr_raise", "unthr_ok"]
NULARG_SHAPES = [(("ext_nularg",), "bare"), (("ext_nularg",), "$()"), (("ext_nularg", "ext_ok"), "bare")]


def nul_space(thorough):
    """[(stages, capture, flag)]: flag 'nulenv' or 'none' (NUL in argv)."""
    shapes = list(NUL_SHAPES_QUICK)
    if thorough:
        shapes = [(("ext_ok",), c) for c in CAPTURES]
        for st in itertools.product(NUL_KINDS_THOROUGH, repeat=2):
            if "ext_ok" in st:
                shapes += [(st, c) for c in CAPTURES]
    return [(st, c, "nulenv") for st, c in shapes] + [(st, c, "none") for st, c in NULARG_SHAPES]


def _mk_flag_case(stages, cap, flag):
    return {"stages": list(stages), "capture": cap, "redirect": "none", "fault": None, "reps": 3, "shims": False, "flag": flag}


# terminal hand-over family: the case process is a session leader whose controlling terminal is a
# pty of the harness, $XONSH_INTERACTIVE is on; uncaptured foreground external commands get the
# terminal (tcsetpgrp) and xonsh must take it back on every path, raising or not
TTY_KINDS = ["ext_ok", "ext_fail", "ext_killed", "nosuch"]
TTY_FLAGS = ["none", "cmd_raise", "@error_raise", "@error_ignore"]  # cmd_raise = $XONSH_SUBPROC_CMD_RAISE_ERROR
TTY_CAPTURES = ["bare", "![]"]
TTY_PAIRS_QUICK = [("ext_ok", "ext_fail"), ("ext_fail", "ext_ok"), ("ext_ok", "ext_killed"), ("ext_ok", "nosuch"), ("nosuch", "ext_fail"), ("ext_fail", "ext_fail")]


TTY_CAPTURED = [("ext_ok",), ("thr_ok",), ("thr_nest",), ("unthr_nest",), ("ext_ok", "thr_nest"), ("thr_nest", "ext_ok"), ("ext_ok", "ext_ok")]
TTY_CAPTURED_FORMS = ["bare", "![]", "$()", "!()"]


def tty_space(thorough):
    """[(stages, capture, flag)], simplest first."""
    out = []
    for k in TTY_KINDS:
        for flag in TTY_FLAGS:
            for cap in TTY_CAPTURES:
                out.append(((k,), cap, flag))
    # captured forms and a nested capture started from an alias (thread): PopenThread blanks the
    # terminal's suspend key / switches cbreak on fd 0 and must put both back, on and off the main thread
    for st in TTY_CAPTURED:
        for cap in TTY_CAPTURED_FORMS if thorough or len(st) == 1 else ["$()"]:
            out.append((tuple(st), cap, "none"))
    pairs = list(itertools.product(TTY_KINDS, repeat=2)) if thorough else TTY_PAIRS_QUICK
    for st in pairs:
        for flag in TTY_FLAGS:
            for cap in TTY_CAPTURES if thorough else ["bare"]:
                out.append((tuple(st), cap, flag))
    return out


def _mk_tty_case(stages, cap, flag):
    return {"stages": list(stages), "capture": cap, "redirect": "none", "fault": None, "reps": 3, "shims": False, "tty": True, "flag": flag}


# class representative of a stage kind (first step of the key reduction); everything finally -> ext_ok
REP = {
    "ext_fail": "ext_ok",
    "ext_big": "ext_ok",
    "ext_slowbig": "ext_ok",
    "ext_eat": "ext_ok",
    "ext_head1": "ext_ok",
    "ext_killed": "ext_ok",
    "ext_nularg": "ext_ok",
    "thr_slowbig": "thr_ok",
    "ext_sleep": "ext_ok",
    "thr_sleep": "thr_ok",
    "nonexec": "nosuch",
    "dir": "nosuch",
    "nonexec_rel": "nosuch",
    "thr_nest": "thr_ok",
    "unthr_nest": "unthr_ok",
    "thr_raise": "thr_ok",
    "thr_exit": "thr_ok",
    "thr_rc1": "thr_ok",
    "thr_early": "thr_ok",
    "thr_big": "thr_ok",
    "thr_head1": "thr_ok",
    "unthr_raise": "unthr_ok",
    "unthr_exit": "unthr_ok",
    "unthr_rc1": "unthr_ok",
}

CLAUSE = {
    "fd-leak": "the shell process holds no additional open file descriptors",
    "fd-closed": "sys.stdin/stdout/stderr (and every other descriptor the session owned) unchanged",
    "thread-left": "no still-running helper threads",
    "zombie": "no un-reaped foreground children",
    "child-left": "no still-running foreground children",
    "cwd": "working directory unchanged",
    "stdio": "sys.stdin/stdout/stderr unchanged",
    "sigint-handler": "Ctrl-C still interrupts (handler left addressed to a finished stage)",
    "sig-handlers": "Ctrl-C still interrupts / signal handlers swapped while a stage ran are restored",
    "stage-thread-died": "no wedged session / Ctrl-C still interrupts (a stage thread died inside xonsh's own code, outside the alias)",
    "sigint-probe": "Ctrl-C still interrupts",
    "env": "environment unchanged apart from documented effects",
    "hang": "repeating a command cannot wedge the session",
    "returned-early": "no still-running foreground children (the command returned while one of its foreground stages was still running)",
    "tty-owner": "terminal ownership unchanged (the shell is the terminal's foreground process group again)",
    "tty-attrs": "terminal ownership unchanged (terminal attributes as before)",
}

# ------------------------------------------------------------------ space


# `slowbig` writes until SIGPIPE: a line is only a terminating command when the next stage ends
# without draining its stdin
_NON_DRAINING = {"ext_ok", "ext_fail", "ext_head1", "nosuch", "nonexec", "dir", "nonexec_rel", "thr_head1", "thr_early", "thr_raise", "thr_exit", "thr_rc1"}


def _valid(stages, red):
    if not stages or (red == "a>p" and len(stages) < 2):
        return False
    for i, k in enumerate(stages):
        if k in ("ext_slowbig", "thr_slowbig") and (i == len(stages) - 1 or stages[i + 1] not in _NON_DRAINING):
            return False
    return True


def _deviations(stages, cap, red):
    return sum(k != "ext_ok" for k in stages) + (cap != "bare") + (red != "none")


def main_space(thorough):
    """[(stages, capture, redirect)], simplest first."""
    out = []
    if thorough:
        kinds12 = KINDS + KINDS_EXTRA
        for n in (1, 2):
            for stages in itertools.product(kinds12, repeat=n):
                for cap in CAPTURES:
                    for red in REDIRECTS:
                        if _valid(stages, red):
                            out.append((stages, cap, red))
        for stages in itertools.product(KINDS, repeat=3):
            for cap in CAPTURES:
                for red in REDIRECTS:
                    if _deviations(stages, cap, red) <= 3:
                        out.append((stages, cap, red))
        early, ecaps, ereds = EARLY_THOROUGH, CAPTURES, ["none", ">out", "2>&1"]
        out += [(st, cap, "none") for st in EARLY3 for cap in CAPTURES]
        out += [(st, cap, "none") for st, cap in SLEEP_THOROUGH]
    else:
        for n in (1, 2):
            for stages in itertools.product(KINDS, repeat=n):
                for cap in CAPTURES:
                    for red in REDIRECTS:
                        if _valid(stages, red) and _deviations(stages, cap, red) <= 2:
                            out.append((stages, cap, red))
        early, ecaps, ereds = EARLY_QUICK, ["bare", "$()", "!()"], ["none"]
        out += [(st, cap, "none") for st in EARLY3 for cap in ("bare", "$()")]
        out += [(st, cap, "none") for st, cap in SLEEP_QUICK]
    for stages in early:
        for cap in ecaps:
            for red in ereds:
                out.append((stages, cap, red))
    out = sorted(set(out), key=lambda c: (_deviations(*c), len(c[0]), _order(c)))
    return out


def _order(c):
    allk = KINDS + KINDS_EXTRA + sorted(H.WORD)
    return ([allk.index(k) for k in c[0]], CAPTURES.index(c[1]), REDIRECTS.index(c[2]))


FAULT_KINDS_QUICK = ["ext_ok", "ext_fail", "nosuch", "thr_ok", "thr_raise", "unthr_ok"]


def fault_shapes(thorough):
    """Shapes whose every acquisition call is failed in turn.  Thorough: every 1- and 2-stage kind
    combination under bare / $() / !(), redirect and early-exit shapes; quick: the combinations of
    one kind per class (+ one failing variant each)."""
    kinds = KINDS if thorough else FAULT_KINDS_QUICK
    out = []
    for n in (1, 2):
        for stages in itertools.product(kinds, repeat=n):
            for cap in ("bare", "$()"):
                out.append((stages, cap, "none"))
    for stages in [("ext_ok",), ("thr_ok",), ("ext_ok", "ext_ok"), ("thr_ok", "ext_ok"), ("ext_ok", "thr_ok")]:
        for cap in ("bare", "$()"):
            out.append((stages, cap, ">out"))
    out.append((("ext_ok", "ext_ok"), "bare", "a>p"))
    out.append((("thr_ok", "ext_ok"), "bare", "a>p"))
    if thorough:
        for stages in EARLY_QUICK:
            out.append((stages, "bare", "none"))
            out.append((stages, "$()", "none"))
        for n in (1, 2):
            for stages in itertools.product(kinds, repeat=n):
                out.append((stages, "!()", "none"))
    return out


_SLEEP_REPS = 2  # quick: 1 (set in run() before any case is built)


def _mk_case(stages, cap, red, fault=None, shims=False):
    # the sleeping stages cost SLEEP_S per repetition: two repetitions there (quick: one)
    reps = _SLEEP_REPS if any(k.endswith("_sleep") for k in stages) else 3
    return {"stages": list(stages), "capture": cap, "redirect": red, "fault": fault, "reps": reps, "shims": bool(shims or fault)}


def _cid(case):
    f = case.get("fault")
    fid = None if not f else (f["role"], f["label"], f["ordinal"], f.get("exc") or "")
    return (tuple(case["stages"]), case["capture"], case["redirect"], fid)


# ------------------------------------------------------------------ oracle


def _grow(n1, n3):
    return "grows" if n3 > n1 else "bounded"


def judge(res):
    """Observation -> {resource signature: {observed, expected}} (empty = session as found)."""
    v = {}
    if res.get("hang"):
        v["hang[shell-stopped-by-terminal-signal]" if res.get("stopped") else "hang"] = {"observed": {"what": "exec did not return within the case alarm" + (" (child had to be killed)" if res.get("hard") else ""), "stacks": res.get("hang_stacks", [])[:6]}, "expected": "command returns"}
        if len(res.get("snaps", [])) < 3:
            return v
    s0, s1, s3 = res["snaps"][0], res["snaps"][1], res["snaps"][-1]
    for field, name in (("fds", "fd-leak"), ("threads", "thread-left")):
        b, a1, a3 = Counter(s0[field]), Counter(s1[field]), Counter(s3[field])
        e1, e3 = a1 - b, a3 - b
        for kind in sorted(set(e1) | set(e3)):
            v[f"{name}[{kind},{_grow(e1[kind], e3[kind])}]"] = {"observed": {"before": s0[field], "after_1": s1[field], "after_3": s3[field]}, "expected": "same multiset as before"}
        if field == "fds":
            for kind in sorted(set(b - a1) | set(b - a3)):
                v[f"fd-closed[{kind}]"] = {"observed": {"before": s0[field], "after_1": s1[field], "after_3": s3[field]}, "expected": "same multiset as before"}
    b, a1, a3 = Counter(s0["children"]), Counter(s1["children"]), Counter(s3["children"])
    e1, e3 = a1 - b, a3 - b
    for st in sorted(set(e1) | set(e3)):
        if st == "Z":
            name = f"zombie[{_grow(e1[st], e3[st])}]"
        else:
            name = f"child-left[running,{_grow(e1[st], e3[st])}]"
        v[name] = {"observed": {"children_states_before": s0["children"], "after_1": s1["children"], "after_3": s3["children"]}, "expected": "no children left"}
    for tag, s in (("after_1", s1), ("after_3", s3)):
        if s["cwd"] != s0["cwd"]:
            v["cwd"] = {"observed": {tag: s["cwd"]}, "expected": s0["cwd"]}
        repl, closed = {}, []
        for n in sorted(s0["stdio"]):
            if s["stdio"][n][0] != s0["stdio"][n][0]:
                repl[n] = s["stdio"][n][2]
            elif s["stdio"][n][1] and not s0["stdio"][n][1]:
                closed.append(n)
        if repl:
            v[f"stdio[replaced-by-{'+'.join(sorted(set(repl.values())))}]"] = {"observed": {tag: {f"sys.{n}": f"a different object ({t})" for n, t in repl.items()}}, "expected": "the same objects as before"}
        if closed:
            v["stdio[closed]"] = {"observed": {tag: {f"sys.{n}": "closed" for n in closed}}, "expected": "open"}
        dead = {}
        for sig in sorted(s0["handlers"]):
            h0, h = s0["handlers"][sig], s["handlers"][sig]
            if h != h0 and h.endswith("@dead-thread"):
                dead.setdefault(h.split(".")[0], []).append(sig[3:])
        for cls, sigs in sorted(dead.items()):
            name = f"sigint-handler[{cls}@dead-thread]" if sigs == ["INT"] else f"sig-handlers[{cls}@dead-thread:{'+'.join(sorted(sigs))}]"
            v[name] = {"observed": {tag: s["handlers"]}, "expected": s0["handlers"]}
        for k in sorted(set(s0["env"]) | set(s["env"])):
            if s0["env"].get(k) != s["env"].get(k):
                v[f"env[{k}]"] = {"observed": {tag: s["env"].get(k)}, "expected": s0["env"].get(k)}
    if "tty" in s0:
        for tag, s in (("after_1", s1), ("after_3", s3)):
            if s["tty"].get("owner") != "shell" and s0["tty"].get("owner") == "shell":
                v["tty-owner"] = {"observed": {tag: s["tty"].get("owner") or s["tty"].get("error")}, "expected": "tcgetpgrp(terminal) == the shell's own process group"}
            if s["tty"].get("attrs") != s0["tty"].get("attrs"):
                v["tty-attrs"] = {"observed": {tag: s["tty"].get("attrs")}, "expected": s0["tty"].get("attrs")}
    # returned while a stage was still running (after a short grace).  When the stage is also left
    # running / un-reaped afterwards, those signatures name the defect and this one is not repeated.
    left = any(k.startswith(("child-left", "zombie")) for k in v), any(k.startswith("thread-left") for k in v)
    for what, covered in (("child", left[0]), ("ProcProxyThread", left[1])):
        counts = [r.get(what, 0) for r in res.get("running_at_return", [])]
        if any(counts) and not covered:
            v[f"returned-early[{what}]"] = {"observed": {"stages still running 0.3 s after each repetition returned": counts}, "expected": "0: a command returns when all of its foreground stages are over"}
    if "probe_after" in res and res["probe_after"] != "KeyboardInterrupt":
        v[f"sigint-probe[{res['probe_after']}]"] = {"observed": {"self-sent SIGINT": res["probe_after"], "SIGINT handler": s3["handlers"]["SIGINT"]}, "expected": "KeyboardInterrupt in the main thread"}
    return v


# ------------------------------------------------------------------ workers


def _init():
    H.warm_up()


def _run(case):
    res = H.run_case(case)
    if res.get("probe_before") not in (None, "KeyboardInterrupt"):
        raise common.ToolError(f"Ctrl-C probe fails before the command ran: {res.get('probe_before')}")
    return {
        "sigs": judge(res),
        "outcomes": res.get("outcomes"),
        "log": res.get("log", []),
        "logs_equal": res.get("logs_equal", True),
        "fired": res.get("fired", 0),
        "deaths": res.get("thread_deaths", []),
        "handed_over": res.get("handed_over", []),
        "stderr_tail": (res.get("term2_tail") or "")[-300:],
    }


def _run_opt(case):
    return None if case is None else _run(case)


def _fault_points(log):
    """Distinct (role, label, ordinal) of a recorded log, in first-occurrence order, x error variants."""
    seen = []
    for role, label, n in log:
        t = (role, label, n)
        if t not in seen:
            seen.append(t)
    out = []
    for role, label, n in seen:
        variants = H.POPEN_EXC if label == "Popen" else ("",)
        for ex in variants:
            out.append({"role": role, "label": label, "ordinal": n, "exc": ex})
    return out


# ------------------------------------------------------------------ keys

# Signature classes that can depend on real-time scheduling (several stage threads racing): they
# are reported only when the same case shows them in 3 runs out of 3.
CONFIRM = ("child-left", "thread-left", "sigint-probe", "fd-closed", "env", "cwd", "tty-", "returned-early")


def _needs_confirmation(r):
    return bool(r["sigs"]) and (bool(r["deaths"]) or any(s.startswith(CONFIRM) for s in r["sigs"]))


def _death_sig(d):
    return f"stage-thread-died[{d}]"


def _simplifications(cid):
    """Candidate simpler cases, most wanted first.  Every step lowers (fault present, error variant,
    deviations from the base line, number of stages), so the descent terminates."""
    stages, cap, red, fid = cid
    if fid is not None:
        yield (stages, cap, red, None)
        if fid[1] == "Popen":
            # 'the n-th external stage cannot be started' is what a missing command is
            ext = [i for i, k in enumerate(stages) if k.startswith("ext_")]
            if fid[0] == "main" and fid[2] < len(ext):
                i = ext[fid[2]]
                yield (stages[:i] + ("nosuch",) + stages[i + 1 :], cap, red, None)
            if fid[3] != H.POPEN_EXC[0]:
                yield (stages, cap, red, (fid[0], fid[1], fid[2], H.POPEN_EXC[0]))
    if cap != "bare":
        yield (stages, "bare", red, fid)
    if red != "none":
        yield (stages, cap, "none", fid)
    for i, k in enumerate(stages):
        if k in REP:
            yield (stages[:i] + (REP[k],) + stages[i + 1 :], cap, red, fid)
    for i, k in enumerate(stages):
        if k != "ext_ok" and k not in REP:
            yield (stages[:i] + ("ext_ok",) + stages[i + 1 :], cap, red, fid)
    if len(stages) >= 2:
        for i in range(len(stages)):
            yield (stages[:i] + stages[i + 1 :], cap, red, fid)


class Reducer:
    """Greedy descent while the same resource signature persists.  A candidate that was not part of
    the enumerated space is executed on demand (memoised), so the key of a case does not depend
    on which other cases the tier happened to enumerate.  Candidates in which a stage thread died
    (a scheduling race, keyed separately) never count as 'the same violation'."""

    def __init__(self, results):
        self.results = results  # cid -> result dict | None (fault point not reached)
        self.extra_runs = 0
        self.memo = {}

    def _fresh(self, cid):
        stages, cap, red, fid = cid
        fault = None if fid is None else {"role": fid[0], "label": fid[1], "ordinal": fid[2], "exc": fid[3]}
        self.extra_runs += 1
        r = _run(_mk_case(stages, cap, red, fault=fault))
        return r if (fid is None or r["fired"]) else None

    def sigs_of(self, cid, sig, on_demand=True):
        """Signatures of a candidate, or None when it cannot be compared."""
        if cid not in self.results:
            if not on_demand:
                return None
            self.results[cid] = self._fresh(cid)
        r = self.results[cid]
        if r is None:
            return None
        if sig.startswith("stage-thread-died"):
            return {_death_sig(d) for d in r["deaths"]}
        tries = 0
        while r["deaths"] and on_demand and tries < 3:
            # an intermittent stage-thread death spoiled this run of the candidate: ask again
            tries += 1
            r2 = self._fresh(cid)
            if r2 is not None and not r2["deaths"]:
                self.results[cid] = r = r2
        if r["deaths"]:
            return None
        return r["sigs"]

    def reduce(self, cid, sig, on_demand=True):
        if any(k.endswith("_sleep") for k in cid[0]) and sig.startswith(("zombie", "child-left", "thread-left", "returned-early")):
            # 'a long-lived upstream stage is not waited for' depends on which wait path the capture
            # form and the last stage select (iterated / not): every such shape keeps its own key
            return cid
        path = []
        on_demand = on_demand and not sig.startswith("hang")  # never go looking for further 20 s hangs
        while True:
            if (cid, sig) in self.memo:
                cid = self.memo[(cid, sig)]
                break
            path.append((cid, sig))
            for cand in _simplifications(cid):
                if not _valid(cand[0], cand[2]):
                    continue
                r = self.sigs_of(cand, sig, on_demand)
                if r is not None and sig in r:
                    cid = cand
                    break
            else:
                break
        for p in path:
            self.memo[p] = cid
        return cid


def _fault_suffix(fid):
    if fid is None:
        return ""
    return f":fault={fid[1]}#{fid[2]}@{fid[0]}" + (f":{fid[3]}" if fid[3] else "")


def key_of(cid, sig):
    stages, cap, red, fid = cid
    return f"{sig}:{'|'.join(stages)}:{cap}:{red}" + _fault_suffix(fid)


def stdio_key(cid, sig):
    """sys.std* damage comes from stage threads swapping the process-global streams (a real-time
    race when two of them overlap): what matters is how many threaded stages there were and
    whether a fault was injected, not the exact shape."""
    n = sum(k.startswith("thr_") for k in cid[0])
    return f"{sig}:threaded-stages={n if n < 2 else '2+'}" + (":with-fault" if cid[3] else "")


_RESULTS = None


def _reduce_worker(item):
    cid, sig = item
    red = Reducer(_RESULTS)
    return red.reduce(cid, sig), red.extra_runs


# ------------------------------------------------------------------ run / replay


def _tty_simplifications(tid):
    stages, cap, flag = tid
    if cap != "bare":
        yield (stages, "bare", flag)
    for i, k in enumerate(stages):
        if k == "ext_killed":
            yield (stages[:i] + ("ext_fail",) + stages[i + 1 :], cap, flag)
    if len(stages) >= 2:
        yield (stages[1:], cap, flag)  # the last spec decides what is raised
        yield (stages[:-1], cap, flag)


def _tty_reduce(tid, sig, tres):
    while True:
        for cand in _tty_simplifications(tid):
            r = tres.get(cand)
            if r is not None and not r["deaths"] and sig in r["sigs"]:
                tid = cand
                break
        else:
            return tid


def _run_tty_family(ctx, results):
    """Terminal hand-over family (see TTY_* above).  Returns coverage numbers."""
    why = H.tty_supported()
    if why is not None:
        ctx.assumptions.append(f"terminal hand-over family skipped in this environment: {why}")
        return {"tty_cases": 0, "tty_skipped": why, "evaluations": 0, "nontrivial": 0}
    space = tty_space(ctx.thorough)
    cases = [_mk_tty_case(*t) for t in space]
    res = common.pmap(_run, cases, ctx.jobs, chunk=2, init=_init, seed=ctx.seed)
    tres = dict(zip(space, res))
    todo = [t for t in space if tres[t]["sigs"]]
    again = common.pmap(_run, [_mk_tty_case(*t) for t in todo for _ in range(2)], ctx.jobs, chunk=1, init=_init, seed=ctx.seed)
    dropped = Counter()
    steady = {}
    for i, t in enumerate(todo):
        r, runs = tres[t], again[2 * i : 2 * i + 2]
        if r["deaths"]:
            steady[t] = [d for d in r["deaths"] if all(d in a["deaths"] for a in runs)]
            continue
        for sig in list(r["sigs"]):
            if not all(sig in a["sigs"] for a in runs):
                dropped[sig.split("[")[0]] += 1
                del r["sigs"][sig]
    red = Reducer(results)
    for t in space:
        r = tres[t]
        if not r["sigs"]:
            continue
        stages, cap, flag = t
        case = _mk_tty_case(*t)
        note = f"controlling-terminal case, flag {flag}; outcomes per repetition: {r['outcomes']}; terminal given away per repetition: {r['handed_over']}; terminal tail: {r['stderr_tail'][-200:]!r}"
        if r["deaths"]:
            obs = {"thread deaths": r["deaths"], "session differences": sorted(r["sigs"])}
            keys = [_death_sig(d) for d in steady.get(t, [])] or ["race:stage-thread-died[" + "+".join(sorted({d.split(":")[0] for d in r["deaths"]})) + "]"]
            for k in keys:
                ctx.violation(k, CLAUSE["stage-thread-died"], {"case": case, "line": H.render(case), "signature": k if not k.startswith("race:") else "race:stage-thread-died"}, observed=obs, expected="stage threads end normally; session as before", note=note)
            continue
        for sig, det in r["sigs"].items():
            equiv = (stages, cap, "none", None)
            if sig.startswith(("tty-", "hang")):
                m = _tty_reduce(t, sig, tres)
                key, reduced = f"{sig}:{'|'.join(m[0])}:{m[2]}:{m[1]}", H.render(_mk_tty_case(*m)).strip()
            elif sig.startswith("stdio"):
                key, reduced = stdio_key(equiv, sig), None
            else:
                # the same thing without a terminal?  then it is that finding, under that key
                er = red.sigs_of(equiv, sig)
                if er is not None and sig in er:
                    mcid = red.reduce(equiv, sig)
                    key, reduced = key_of(mcid, sig), H.render(_mk_case(*mcid[:3])).strip()
                else:
                    key, reduced = f"{sig}:{'|'.join(stages)}:{cap}:none:tty/{flag}", None
            ctx.violation(key, CLAUSE.get(sig.split("[")[0], sig), {"case": case, "line": H.render(case), "signature": sig, "reduced_to": reduced}, observed=det["observed"], expected=det["expected"], note=note)
    ctx.sample({"line": H.render(cases[-1]), "tty": True, "flag": cases[-1]["flag"], "outcomes": res[-1]["outcomes"], "terminal_given_away": res[-1]["handed_over"], "violated": sorted(res[-1]["sigs"])})
    handed = sum(1 for r in res if any(r["handed_over"]))
    ctx.log(f"terminal family: {len(cases)} cases, terminal actually given away in {handed}; {len(todo)} re-run twice, dropped {dict(dropped)}; {red.extra_runs} extra runs")
    return {"tty_cases": len(cases), "tty_cases_terminal_given_away": handed, "evaluations": len(cases) + 2 * len(todo) + red.extra_runs, "nontrivial": handed, "tty_unconfirmed_dropped": dict(dropped)}


def _run_nul_family(ctx, results):
    """Non-OSError spawn failures through their natural trigger (see NUL_* above)."""
    space = nul_space(ctx.thorough)
    cases = [_mk_flag_case(*t) for t in space]
    res = common.pmap(_run, cases, ctx.jobs, chunk=2, init=_init, seed=ctx.seed)
    fres = dict(zip(space, res))
    todo = [t for t in space if fres[t]["sigs"] and (fres[t]["deaths"] or any(s.startswith(CONFIRM) for s in fres[t]["sigs"]))]
    again = common.pmap(_run, [_mk_flag_case(*t) for t in todo for _ in range(2)], ctx.jobs, chunk=1, init=_init, seed=ctx.seed)
    dropped = Counter()
    steady = {}
    for i, t in enumerate(todo):
        r, runs = fres[t], again[2 * i : 2 * i + 2]
        if r["deaths"]:
            steady[t] = [d for d in r["deaths"] if all(d in a["deaths"] for a in runs)]
            continue
        for sig in [s for s in r["sigs"] if s.startswith(CONFIRM)]:
            if not all(sig in a["sigs"] for a in runs):
                dropped[sig.split("[")[0]] += 1
                del r["sigs"][sig]
    red = Reducer(results)
    spawn_failed = 0
    for t in space:
        r = fres[t]
        stages, cap, flag = t
        if flag == "nulenv" and "ValueError" in (r["stderr_tail"] or "") + str(r["outcomes"]):
            spawn_failed += 1
        if not r["sigs"]:
            continue
        case = _mk_flag_case(*t)
        note = f"flag {flag}; outcomes per repetition: {r['outcomes']}; stderr tail: {r['stderr_tail'][-200:]!r}"
        if r["deaths"]:
            obs = {"thread deaths": r["deaths"], "session differences": sorted(r["sigs"])}
            keys = [_death_sig(d) for d in steady.get(t, [])] or ["race:stage-thread-died[" + "+".join(sorted({d.split(":")[0] for d in r["deaths"]})) + "]"]
            for k in keys:
                ctx.violation(k, CLAUSE["stage-thread-died"], {"case": case, "line": H.render(case), "signature": k if not k.startswith("race:") else "race:stage-thread-died"}, observed=obs, expected="stage threads end normally; session as before", note=note)
            continue
        # with the NUL variable the first external stage cannot be spawned: what a missing command is
        ext = [i for i, k in enumerate(stages) if k.startswith("ext_")]
        if flag == "nulenv" and ext:
            equiv = (stages[: ext[0]] + ("nosuch",) + stages[ext[0] + 1 :], cap, "none", None)
        else:
            equiv = (tuple(REP.get(k, k) for k in stages), cap, "none", None)
        for sig, det in r["sigs"].items():
            if sig.startswith("stdio"):
                key, reduced = stdio_key(equiv, sig), None
            else:
                er = None if sig.startswith("hang") else red.sigs_of(equiv, sig)
                if er is not None and sig in er:
                    mcid = red.reduce(equiv, sig)
                    key, reduced = key_of(mcid, sig), H.render(_mk_case(*mcid[:3])).strip()
                else:
                    key, reduced = f"{sig}:{'|'.join(stages)}:{cap}:none:{'nul-in-env' if flag == 'nulenv' else 'nul-in-argv'}", None
            ctx.violation(key, CLAUSE.get(sig.split("[")[0], sig), {"case": case, "line": H.render(case), "signature": sig, "reduced_to": reduced}, observed=det["observed"], expected=det["expected"], note=note)
    ctx.sample({"line": H.render(cases[0]), "flag": cases[0]["flag"], "outcomes": res[0]["outcomes"], "violated": sorted(res[0]["sigs"])})
    ctx.log(f"NUL family: {len(cases)} cases ({spawn_failed} with a spawn that failed with ValueError); {len(todo)} re-run twice, dropped {dict(dropped)}; {red.extra_runs} extra runs")
    return {"nul_cases": len(cases), "nul_cases_spawn_failed_with_ValueError": spawn_failed, "evaluations": len(cases) + 2 * len(todo) + red.extra_runs, "nontrivial": len(cases), "nul_unconfirmed_dropped": dict(dropped)}


def run(ctx):
    global _SLEEP_REPS
    H.warm_up()
    _SLEEP_REPS = ctx.pick(1, 2)
    space = main_space(ctx.thorough)
    fshapes = fault_shapes(ctx.thorough)
    ctx.log(f"main space {len(space)} cases; {len(fshapes)} shapes for fault enumeration")
    main_cases = [_mk_case(*c) for c in space]
    rec_cases = [_mk_case(*c, shims=True) for c in fshapes]
    # pmap shards round-robin (item k -> worker k mod jobs).  The few sleeping cases cost seconds
    # each: they go first, one per worker, and that worker's next slots are left empty instead
    items = main_cases + rec_cases
    heavy = [i for i, c in enumerate(items) if any(k.endswith("_sleep") for k in c["stages"])]
    if 0 < len(heavy) < ctx.jobs and not ctx.thorough:
        light = [i for i in range(len(items)) if i not in set(heavy)]
        layout, li, rnd = [], 0, 0
        while li < len(light):
            for slot in range(ctx.jobs):
                if slot < len(heavy) and rnd <= 14:
                    layout.append(heavy[slot] if rnd == 0 else None)
                elif li < len(light):
                    layout.append(light[li])
                    li += 1
            rnd += 1
    else:
        layout = list(range(len(items)))
    got = common.pmap(_run_opt, [None if i is None else items[i] for i in layout], ctx.jobs, chunk=1, init=_init, seed=ctx.seed)
    out = [None] * len(items)
    for i, r in zip(layout, got):
        if i is not None:
            out[i] = r
    main_res, rec_res = out[: len(main_cases)], out[len(main_cases) :]
    ctx.log("fault-free runs done")

    results = {}  # cid -> result
    cases_by_cid = {}
    order = []
    for case, r in zip(main_cases, main_res):
        cid = _cid(case)
        results[cid] = r
        cases_by_cid[cid] = case
        order.append(cid)
    shim_disagree = []
    for case, r in zip(rec_cases, rec_res):
        cid = _cid(case)
        if cid in results:
            a, b = results[cid], r
            if not a["deaths"] and not b["deaths"]:
                sa = {s for s in a["sigs"] if not s.startswith(CONFIRM + ("stdio", "hang"))}
                sb = {s for s in b["sigs"] if not s.startswith(CONFIRM + ("stdio", "hang"))}
                if sa != sb:
                    shim_disagree.append((cid, sorted(sa), sorted(sb)))
        else:
            results[cid] = r
            cases_by_cid[cid] = case
            order.append(cid)
    if shim_disagree:
        raise common.ToolError(f"passive shims changed the verdict (or the verdict is not deterministic): {shim_disagree[:3]}")

    fault_cases = []
    per_label = Counter()
    unequal_logs = 0
    for case, r in zip(rec_cases, rec_res):
        if not r["logs_equal"]:
            unequal_logs += 1
        for f in _fault_points(r["log"]):
            fault_cases.append(_mk_case(tuple(case["stages"]), case["capture"], case["redirect"], fault=f))
            per_label[f["label"] + (":" + f["exc"] if f["exc"] else "")] += 1
    ctx.log(f"{len(fault_cases)} single-fault cases: {dict(sorted(per_label.items()))}")
    fres = common.pmap(_run, fault_cases, ctx.jobs, chunk=4, init=_init, seed=ctx.seed)
    fired = 0
    for case, r in zip(fault_cases, fres):
        cid = _cid(case)
        results[cid] = r
        cases_by_cid[cid] = case
        order.append(cid)
        fired += 1 if r["fired"] else 0
    ctx.log("single-fault runs done")

    # confirmation of scheduling-sensitive observations: 3 out of 3
    todo = [cid for cid in order if _needs_confirmation(results[cid])]
    again = common.pmap(_run, [cases_by_cid[c] for c in todo for _ in range(2)], ctx.jobs, chunk=1, init=_init, seed=ctx.seed)
    unconfirmed = Counter()
    steady_death = {}  # cid -> [death signatures seen in 3 runs out of 3]
    for i, cid in enumerate(todo):
        r = results[cid]
        runs = again[2 * i : 2 * i + 2]
        if r["deaths"]:
            steady_death[cid] = [d for d in r["deaths"] if all(d in a["deaths"] for a in runs)]
            continue
        for sig in [s for s in r["sigs"] if s.startswith(CONFIRM)]:
            if not all(sig in a["sigs"] for a in runs):
                unconfirmed[sig.split("[")[0]] += 1
                del r["sigs"][sig]
    ctx.log(f"confirmation: {len(todo)} cases re-run twice; unconfirmed observations dropped: {dict(unconfirmed)}")

    # keys.  Stage 1: descent inside the enumerated results; stage 2 (parallel): the provisional
    # fixpoints are reduced further, executing candidates that were not enumerated.
    global _RESULTS
    inset = Reducer(results)
    prov = {}
    for cid in order:
        r = results[cid]
        if r["deaths"]:
            continue
        for sig in r["sigs"]:
            if not sig.startswith("stdio"):
                prov[(cid, sig)] = inset.reduce(cid, sig, on_demand=False)
    # outliers: a provisional key carried by fewer than 3 cases is confirmed like the
    # scheduling-sensitive classes (its cases are re-run twice; 3 out of 3 or it is dropped)
    support = Counter((m, sig) for (_c, sig), m in prov.items())
    confirmed = set(todo)
    rare = sorted({c for (c, sig), m in prov.items() if support[(m, sig)] < 3 and c not in confirmed and not sig.startswith("hang") and not any(k.endswith("_sleep") for k in c[0])}, key=repr)
    again2 = common.pmap(_run, [cases_by_cid[c] for c in rare for _ in range(2)], ctx.jobs, chunk=1, init=_init, seed=ctx.seed)
    for i, cid in enumerate(rare):
        r = results[cid]
        runs = again2[2 * i : 2 * i + 2]
        for sig in list(r["sigs"]):
            if (cid, sig) in prov and not sig.startswith("hang") and not any(k.endswith("_sleep") for k in cid[0]) and support[(prov[(cid, sig)], sig)] < 3 and not all(sig in a["sigs"] and not a["deaths"] for a in runs):
                unconfirmed[sig.split("[")[0]] += 1
                del r["sigs"][sig]
                del prov[(cid, sig)]
    ctx.log(f"outlier confirmation: {len(rare)} cases re-run twice; dropped so far: {dict(unconfirmed)}")
    fix = sorted({(m, sig) for (_c, sig), m in prov.items()}, key=repr)
    _RESULTS = results
    fin = common.pmap(_reduce_worker, fix, ctx.jobs, chunk=1, init=_init, seed=ctx.seed)
    final = {k: m for k, (m, _n) in zip(fix, fin)}
    extra_runs = sum(n for _m, n in fin)

    n_viol_cases = 0
    n_tainted = 0
    for cid in order:
        r = results[cid]
        if not r["sigs"]:
            continue
        n_viol_cases += 1
        case = cases_by_cid[cid]
        note = f"outcomes per repetition: {r['outcomes']}; stderr tail: {r['stderr_tail'][-200:]!r}"
        if r["deaths"]:
            # a stage thread died in xonsh's own code (not in the alias): whatever else differs in
            # this run is a consequence, and where/why the thread died IS the root cause - the
            # shape only decides the timing.  Reproduced 3/3 -> keyed by the exact death; otherwise
            # (a real-time race between stage threads) under one key per thread class.
            n_tainted += 1
            obs = {"thread deaths": r["deaths"], "session differences": sorted(r["sigs"])}
            if steady_death.get(cid):
                for d in steady_death[cid]:
                    ctx.violation(_death_sig(d), CLAUSE["stage-thread-died"], {"case": case, "line": H.render(case), "signature": _death_sig(d)}, observed=obs, expected="stage threads end normally; session as before", note=note)
            else:
                classes = sorted({d.split(":")[0] for d in r["deaths"]})
                ctx.violation("race:stage-thread-died[" + "+".join(classes) + "]", CLAUSE["stage-thread-died"], {"case": case, "line": H.render(case), "signature": "race:stage-thread-died"}, observed=obs, expected="stage threads end normally; session as before", note=note + " (intermittent: not reproduced 3/3)")
            continue
        for sig, det in r["sigs"].items():
            if sig.startswith("stdio"):
                key, reduced = stdio_key(cid, sig), None
            else:
                mcid = final[(prov[(cid, sig)], sig)]
                key, reduced = key_of(mcid, sig), H.render(_mk_case(*mcid[:3])).strip()
            ctx.violation(
                key,
                CLAUSE.get(sig.split("[")[0], sig),
                {"case": case, "line": H.render(case), "signature": sig, "reduced_to": reduced},
                observed=det["observed"],
                expected=det["expected"],
                note=note,
            )
    ctx.log(f"key reduction needed {extra_runs} extra runs")
    tty = _run_tty_family(ctx, results)
    nul = _run_nul_family(ctx, results)
    # simplest-first artefacts
    ctx.violations.sort(key=lambda v: (v.case["case"]["fault"] is not None, _deviations(tuple(v.case["case"]["stages"]), v.case["case"]["capture"], v.case["case"]["redirect"]), len(v.case["case"]["stages"])))

    for cid in common.pick_samples([c for c in order if c[3] is None], ctx.seed, 5) + common.pick_samples([c for c in order if c[3] is not None], ctx.seed, 4):
        case, r = cases_by_cid[cid], results[cid]
        ctx.sample({"line": H.render(case), "fault": case["fault"], "outcomes": r["outcomes"], "acquisition_log": r["log"], "violated": sorted(r["sigs"])})
    total = len(main_cases) + len(rec_cases) + len(fault_cases) + 2 * len(todo) + 2 * len(rare) + extra_runs + tty["evaluations"] + nul["evaluations"]
    nontrivial = {c for c in order if (c[3] is None and _deviations(*c[:3]) > 0)} | {_cid(c) for c, r in zip(fault_cases, fres) if r["fired"]}
    ctx.coverage.update(
        evaluations=total,
        distinct_nontrivial=len(nontrivial) + tty["nontrivial"] + nul["nontrivial"],
        rule="a fault-free case is non-trivial when it differs from the base line (`ok`, bare, no redirect) in at least one of stage kinds / capture / redirect; a fault case when the injected failure was actually reached in the re-run; a controlling-terminal case when xonsh really gave the terminal away (tcsetpgrp) in at least one repetition",
        terminal_family={k: v for k, v in tty.items() if k not in ("evaluations", "nontrivial")},
        nul_family={k: v for k, v in nul.items() if k not in ("evaluations", "nontrivial")},
        exhaustive=True,
        main_space_cases=len(main_cases),
        fault_shapes=len(rec_cases),
        fault_pairs=len({_cid(c) for c in fault_cases}),
        fault_pairs_fired=fired,
        fault_points_by_call=dict(sorted(per_label.items())),
        shapes_with_repetition_dependent_logs=unequal_logs,
        repetitions_per_case=3,
        cases_with_violation=n_viol_cases,
        cases_with_stage_thread_death=n_tainted,
        confirmation_reruns=2 * len(todo) + 2 * len(rare),
        unconfirmed_observations_dropped=dict(unconfirmed),
        extra_runs_for_key_reduction=extra_runs,
        bounds={
            "stages": "1-3" if ctx.thorough else "1-2",
            "deviation_bound": "none for 1-2 stages, 3 for 3 stages" if ctx.thorough else 2,
            "stage_kinds": KINDS + (KINDS_EXTRA if ctx.thorough else []),
            "captures": CAPTURES,
            "redirects": REDIRECTS,
        },
    )
    ctx.assumptions += [
        "main space and fault enumeration: case process is a session leader without controlling terminal, $XONSH_INTERACTIVE off; terminal hand-over (tcsetpgrp/tcsetattr) is exercised by the separate controlling-terminal family only (uncaptured external commands, no faults injected there)",
        "controlling-terminal family: harness pty as controlling terminal on fds 0/1/2, $XONSH_INTERACTIVE on, no-op SIGTTIN/SIGTTOU handlers as xonsh.main installs them; no prompt toolkit shell object (XSH.shell is None)",
        "Linux /proc is the source of truth for fds and children; quiescence = gc.collect() + real-time poll (<= 2 s) until no helper thread is alive and no child is running",
        "single faults only (one failing acquisition call per run, repeated identically in each of the 3 repetitions); Popen failures are injected at subprocess.Popen.__init__",
        "default $XONSH_SUBPROC_RAISE_ERROR (failing pipelines raise CalledProcessError, an allowed outcome)",
        "real threads, real time: races between stage threads are observed, not enumerated; scheduling-sensitive observations (child/thread left, Ctrl-C probe) count only when reproduced 3/3, and a case in which a stage thread died in xonsh's own code is keyed by that death, not by its shape",
    ]


def replay(rec):
    H.warm_up()
    c = rec["case"]
    case = c["case"]
    want = c["signature"]
    death = want.startswith(("stage-thread-died", "race:stage-thread-died"))
    print("line:", repr(H.render(case)), "fault:", case.get("fault"), *(["controlling terminal: yes, flag:", case.get("flag")] if case.get("tty") else []))
    attempts = 12 if want.startswith("race:") else 3 if death else 1
    for n in range(attempts):
        r = _run(case)
        if not death or r["deaths"]:
            break
    print("outcomes per repetition:", r["outcomes"])
    print("acquisition log:", r["log"])
    print("stage threads that died in xonsh code:", r["deaths"])
    for sig, det in sorted(r["sigs"].items()):
        print(f"  {'*' if sig == want else ' '} {sig}")
        print("      observed:", common.jdump(det["observed"])[:600])
        print("      expected:", common.jdump(det["expected"])[:300])
    if death:
        hit = bool(r["deaths"]) and bool(r["sigs"]) and (want.startswith("race:") or want in {_death_sig(d) for d in r["deaths"]})
        if hit:
            print(f"VIOLATION reproduced (attempt {n + 1}): {rec.get('key')}; expected: stage threads end normally, session as before")
            print("stderr tail:", r["stderr_tail"])
            return 1
        print(f"no stage thread died in {attempts} attempt(s)" + (" (scheduling-dependent race)" if attempts > 1 else ""))
        return 0
    if want in r["sigs"]:
        print(f"VIOLATION reproduced: {want}  (recorded key: {rec.get('key')})")
        return 1
    print(f"recorded signature {want!r} not observed; session state equal before/after for that resource")
    return 0
