"""Drop the DAC-bypassing capabilities in the current process so that permission bits bind even
though the sandbox user is root (setuid(nobody) is not an option: the interpreter lives under a
0700 /root)."""

import ctypes
import os

CAP_DAC_OVERRIDE, CAP_DAC_READ_SEARCH, CAP_FOWNER = 1, 2, 3


class _Hdr(ctypes.Structure):
    _fields_ = [("version", ctypes.c_uint32), ("pid", ctypes.c_int)]


class _Data(ctypes.Structure):
    _fields_ = [("effective", ctypes.c_uint32), ("permitted", ctypes.c_uint32), ("inheritable", ctypes.c_uint32)]


def drop_dac_caps() -> bool:
    """Returns True when permission bits now bind for this process."""
    if os.geteuid() != 0:
        return True
    try:
        libc = ctypes.CDLL(None, use_errno=True)
        hdr = _Hdr(0x20080522, 0)
        data = (_Data * 2)()
        if libc.capget(ctypes.byref(hdr), data) != 0:
            return False
        mask = ~((1 << CAP_DAC_OVERRIDE) | (1 << CAP_DAC_READ_SEARCH) | (1 << CAP_FOWNER)) & 0xFFFFFFFF
        data[0].effective &= mask
        data[0].permitted &= mask
        data[0].inheritable &= mask
        if libc.capset(ctypes.byref(hdr), data) != 0:
            return False
    except Exception:
        return False
    return True


def permissions_bind(tmpdir) -> bool:
    p = os.path.join(tmpdir, ".permprobe")
    os.makedirs(p, exist_ok=True)
    os.chmod(p, 0o000)
    try:
        ok = not os.access(p, os.X_OK)
    finally:
        os.chmod(p, 0o700)
        os.rmdir(p)
    return ok
