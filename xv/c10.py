"""C10 - the typed environment survives the trip to child processes and back.

Part A (exhaustive over registered variables): for every registered variable with a validator,
converter and detyper, every value of a shared candidate pool that the variable's own validator
accepts is converted to its string form and back; a nested Env built from the parent's detyped
mapping must read equal.
Part B (seqx): BFS over histories of set / delete / in-place mutation through a fresh read and
through a held reference / swap / overlay / DELETE_VAR / launch, where `launch` is the real
SubprocSpec.prep_env_subproc (and a real `env -0` child on sampled states); the mapping handed to
the child must equal a from-scratch detype of the current logical values (the cache is never
observable), consist of str->str only, and be mirrored in os.environ when UPDATE_OS_ENVIRON is on.

Does not require: round trips for variables whose validator accepts anything (no 'valid values of
the type' to speak of) or that have no converter/detyper; exported defaults (only explicitly set
variables are handed to children); LC_* variables (setting them calls setlocale)."""

import os
import subprocess

from . import common, seqx
from .session import load_session

LEVEL = "model_checking"

DEL = "<DELETE_VAR>"


# ------------------------------------------------------------------ part A


def _pool():
    import pathlib

    from xonsh.environ import EnvPath

    return [
        True, False, None, 0, 1, -1, 10, 1.5, -0.5, float("inf"), "", "a", "a b", "a:b", "a,b", "é\U0001f642", "~", "/x", "/x:/y", ":", "0", "1", "true", "False",
        "commands", "8128 commands", "default", "none",
        [], ["/a"], ["/a", "/b"], ["/a", "", "/a"], ["~", "rel"], ["/a b", "/c"],
        EnvPath([]), EnvPath(["/a", "/b"]), EnvPath(["/a", "", "/a"]),
        set(), {"a"}, {"a", "b"}, frozenset({"x"}),
        (1, "commands"), (8128, "commands"), (2.5, "s"), (0, "files"), (30, "b"), (1, "kb"),
        pathlib.Path("/x"), pathlib.Path("rel/y"), pathlib.Path("."),
        {"di": "01;34"}, {},
    ]  # fmt: skip


def _eq(a, b):
    from xonsh.environ import EnvPath

    if isinstance(a, EnvPath) or isinstance(b, EnvPath):
        try:
            return [str(x) for x in a] == [str(x) for x in b]
        except TypeError:
            return False
    try:
        if a == b:
            return True
    except Exception:  # noqa: BLE001
        pass
    if isinstance(a, float) and isinstance(b, float) and a != a and b != b:
        return True
    return False


def _part_a(ctx):
    from xonsh.environ import DEFAULT_VARS, ENSURERS, Env
    from xonsh.tools import always_true

    d = common.scratch_dir("c10a")
    load_session(data_dir=d)
    pool = _pool()
    evals = 0
    nontrivial = set()
    skipped = []
    vars_ = dict(DEFAULT_VARS)
    for tname, (v, c, dt) in ENSURERS.items():
        vars_[f"<type:{tname}>"] = type("V", (), {"validate": staticmethod(v), "convert": staticmethod(c), "detype": staticmethod(dt), "default": None})()
    for name in sorted(vars_, key=str):
        var = vars_[name]
        if not isinstance(name, str) or name.startswith("LC_"):
            continue
        val, conv, det = var.validate, var.convert, var.detype
        if val is None or conv is None or det is None or val is always_true:
            skipped.append(name)
            continue
        for v in pool:
            try:
                if not val(v):
                    continue
            except Exception:  # noqa: BLE001
                continue
            evals += 1
            try:
                s = det(v)
            except Exception as e:  # noqa: BLE001
                ctx.violation(f"roundtrip:detype-raises:{_tclass(v)}:{type(e).__name__}", "a valid value has a string form", {"var": name, "value": repr(v)}, f"{type(e).__name__}: {e}", "a string")
                continue
            if s is None:
                continue  # untranslatable: omitted, allowed
            if not isinstance(s, str):
                ctx.violation(f"roundtrip:detype-not-str:{_tclass(v)}", "string form is a str", {"var": name, "value": repr(v)}, repr(s), "str")
                continue
            try:
                back = conv(s)
            except Exception as e:  # noqa: BLE001
                ctx.violation(f"roundtrip:convert-raises:{_vkind(var, name)}:{_tclass(v)}", "string form converts back", {"var": name, "value": repr(v), "string": s}, f"{type(e).__name__}: {e}", repr(v))
                continue
            nontrivial.add((name, repr(v)))
            cname = getattr(conv, "__name__", "")
            if cname == "pathsep_to_upper_seq":
                # upper-casing IS the type (case-insensitive extensions): compare case-insensitively
                back, v = [str(x).upper() for x in back], [str(x).upper() for x in v]
            if cname == "str_to_abs_path":
                v = type(v)(os.path.abspath(str(v)))  # making the path absolute IS the type
            if not _eq(back, v):
                ctx.violation(f"roundtrip:not-equal:{_vkind(var, name)}:{_tclass(v)}", "converting to the string form and back yields an equal value", {"var": name, "value": repr(v), "string": s}, repr(back), repr(v))
                continue
            # nested xonsh: a child Env built from the detyped mapping reads equal
            if not name.startswith("<type:") and name != "UPDATE_OS_ENVIRON":
                try:
                    parent = Env({"UPDATE_OS_ENVIRON": False, "PATH": []})
                    parent[name] = v
                    den = parent.detype()
                    if name in den:
                        child = Env(dict(den, UPDATE_OS_ENVIRON="False"))
                        if not _eq(child[name], parent[name]):
                            ctx.violation(f"nested-env:not-equal:{_vkind(var, name)}:{_tclass(v)}", "a nested xonsh sees the same settings as its parent", {"var": name, "value": repr(v), "string": den[name]}, repr(child[name]), repr(parent[name]))
                except Exception as e:  # noqa: BLE001
                    ctx.violation(f"nested-env:raises:{_vkind(var, name)}:{_tclass(v)}:{type(e).__name__}", "a nested xonsh sees the same settings as its parent", {"var": name, "value": repr(v)}, f"{type(e).__name__}: {e}", "equal value")
    ctx.sample({"var": "XONSH_HISTORY_SIZE", "value": "(8128, 'commands')", "string": "8128 commands"})
    return evals, len(nontrivial), len(skipped), len(vars_)


def _vkind(var, name):
    """Stable name of the variable's type triple (several variables share one)."""
    n = getattr(var.convert, "__name__", "conv")
    return n


def _tclass(v):
    t = type(v).__name__
    if isinstance(v, str):
        return "str-empty" if v == "" else "str"
    if isinstance(v, (list, tuple)) or t == "EnvPath":
        return f"{t}-{'empty' if len(v) == 0 else 'with-empty-entry' if any(x == '' for x in v if isinstance(x, str)) else 'n'}"
    return t


# ------------------------------------------------------------------ part B


def _events():
    evs = [
        ["set", "FOO", "a"], ["set", "FOO", "b c"], ["del", "FOO"],
        ["set", "BAR", 1], ["del", "BAR"],
        ["set", "XONSH_HISTORY_SIZE", [3, "files"]],
        ["set", "PATH", ["/p1"]], ["set", "PATH", []],
        ["fresh-append", "/p2"], ["fresh-insert0", ""], ["fresh-remove-first"],
        ["hold"], ["held-append", "/p3"], ["held-clear"],
        ["swap", "FOO", "s"], ["swap", "FOO", DEL], ["swap", "PATH", ["/sw"]], ["overlay", "FOO", "o"], ["overlay", "FOO", "o2"], ["overlay", "BAR", DEL], ["exit"],
        ["launch", None], ["launch", {"FOO": "x"}], ["launch", {"FOO": DEL}], ["launch", {"NEW": "n"}],
        ["mirror", True], ["mirror", False],
    ]  # fmt: skip
    return evs


class Harness:
    prune_after_violation = True  # the reference cannot be re-synchronised after a divergence

    def __init__(self):
        d = common.scratch_dir("c10")
        self.xsh = load_session(data_dir=d)
        from xonsh.environ import DELETE_VAR, Env
        from xonsh.procs.specs import SubprocSpec

        self.Env, self.DELETE_VAR, self.SubprocSpec = Env, DELETE_VAR, SubprocSpec
        self.events = _events()
        self.os_environ_backup = dict(os.environ)
        self.n_children = 0

    def reset(self):
        os.environ.clear()
        os.environ.update(self.os_environ_backup)
        env = self.Env({"UPDATE_OS_ENVIRON": False, "PATH": ["/p0"], "FOO": "g"})
        self.xsh.env = env
        self.env = env
        self.base = {"PATH": ["/p0"], "FOO": "g", "UPDATE_OS_ENVIRON": False}
        self.scopes = []  # (kind, {k: v})
        self.cms = []
        self.held = None  # the model list object that the held reference aliases
        self.held_impl = None
        self.mirror = False
        self.launched = 0

    def _iv(self, v):
        return self.DELETE_VAR if v == DEL else v

    def visible_explicit(self):
        """Reference: explicitly set variables as visible to this thread now."""
        out = dict(self.base)
        for kind, d in self.scopes:
            if kind == "swap":
                out.update(d)
        for kind, d in self.scopes:
            if kind == "overlay":
                out.update(d)
        return out

    def ref_detype(self, overlay=None):
        vis = self.visible_explicit()
        if overlay:
            vis.update(overlay)
        out = {}
        for k, v in vis.items():
            if v == DEL:
                continue
            out[k] = self._detype(k, v)
        return out

    def _detype(self, k, v):
        if k == "PATH":
            return os.pathsep.join(v)
        if k == "XONSH_HISTORY_SIZE":
            return f"{v[0]} {v[1]}"
        if k == "UPDATE_OS_ENVIRON":
            return "1" if v else ""
        return str(v)

    def scoped(self):
        s = set()
        for _, d in self.scopes:
            s |= set(d)
        return s

    def menu(self):
        out = []
        sk = self.scoped()
        path_vis = self.visible_explicit().get("PATH")
        for ev in self.events:
            k = ev[0]
            if k in ("set", "del") and ev[1] in sk:
                continue
            if k == "del" and ev[1] not in self.base:
                continue
            if k in ("swap", "overlay") and len(self.scopes) >= 2:
                continue
            if k == "exit" and not self.scopes:
                continue
            if k.startswith("fresh") and ("PATH" in sk or path_vis is None):
                continue
            if k == "fresh-append" and len(self.base["PATH"]) >= 3:
                continue
            if k == "fresh-insert0" and (len(self.base["PATH"]) >= 3 or "" in self.base["PATH"]):
                continue
            if k == "fresh-remove-first" and not self.base["PATH"]:
                continue
            if k == "hold" and ("PATH" in sk or self.held is self.base["PATH"]):
                continue
            if k.startswith("held-") and self.held is None:
                continue
            if k.startswith("held-") and self.mirror and self.scopes and self.held is not self.base.get("PATH"):
                continue  # the detached-reference defect is reported in its scope-free form; inside a scope
                # the mirror check is suspended and the damage would surface later under another key
            if k == "held-append" and len(self.held) >= 3:
                continue
            if k == "held-clear" and not self.held:
                continue
            if k == "mirror" and (ev[1] == self.mirror or self.scopes):
                continue
            out.append(ev)
        return out

    def canon(self):
        return [
            sorted((k, repr(v)) for k, v in self.base.items()),
            [[a, sorted((k, repr(v)) for k, v in d.items())] for a, d in self.scopes],
            self.held is not None and self.held is self.base.get("PATH"),
            None if self.held is None else list(self.held),
            self.mirror,
            # hidden state that decides futures: the cached mapping itself (only used for hashing)
            sorted((getattr(self.env, "_detyped", None) or {"<no cache>": ""}).items()),
        ]

    def step(self, ev, check):
        env = self.env
        k = ev[0]
        viols = []
        if k == "set":
            v = ev[2]
            if ev[1] == "XONSH_HISTORY_SIZE":
                v = tuple(v)
            if ev[1] == "PATH":
                v = list(v)
            env[ev[1]] = v
            self.base[ev[1]] = list(v) if ev[1] == "PATH" else v
            if ev[1] == "PATH":
                pass  # a held reference keeps aliasing the OLD list object
        elif k == "del":
            del env[ev[1]]
            self.base.pop(ev[1], None)
        elif k == "fresh-append":
            env["PATH"].append(ev[1])
            self.base["PATH"].append(ev[1])
        elif k == "fresh-insert0":
            env["PATH"].insert(0, ev[1])
            self.base["PATH"].insert(0, ev[1])
        elif k == "fresh-remove-first":
            first = self.base["PATH"][0]
            env["PATH"].remove(first)
            self.base["PATH"].remove(first)
        elif k == "hold":
            self.held_impl = env["PATH"]
            self.held = self.base["PATH"]
        elif k == "held-append":
            self.held_impl.append(ev[1])
            self.held.append(ev[1])
        elif k == "held-clear":
            self.held_impl.clear()
            self.held.clear()
        elif k in ("swap", "overlay"):
            iv = self._iv(ev[2])
            if isinstance(iv, list):
                iv = list(iv)
            cm = env.swap({ev[1]: iv}) if k == "swap" else env.swap(overlay={ev[1]: iv})
            cm.__enter__()
            self.cms.append(cm)
            self.scopes.append((k, {ev[1]: ev[2]}))
        elif k == "exit":
            self.cms.pop().__exit__(None, None, None)
            self.scopes.pop()
        elif k == "mirror":
            env["UPDATE_OS_ENVIRON"] = ev[1]
            self.base["UPDATE_OS_ENVIRON"] = ev[1]
            self.mirror = ev[1]
        elif k == "launch":
            ov = ev[1]
            spec = self.SubprocSpec.__new__(self.SubprocSpec)
            spec.env = None if ov is None else {a: self._iv(b) for a, b in ov.items()}
            kwargs = {}
            try:
                spec.prep_env_subproc(kwargs)
                denv = kwargs["env"]
            except Exception as e:  # noqa: BLE001
                denv = f"{type(e).__name__}: {e}"
            self.launched += 1
            if check:
                want = self.ref_detype(ov)
                viols += self._cmp(denv, want, ev)
                if isinstance(denv, dict) and not viols and self.launched % 7 == 0:
                    viols += self._real_child(denv)
        if check and self.mirror and not self.scopes and k != "launch":
            want = self.ref_detype(None)
            got = {a: b for a, b in os.environ.items()}
            if got != want:
                diff = sorted(set(got.items()) ^ set(want.items()))[:4]
                detached = self.held is not None and self.held is not self.base.get("PATH")
                viols.append({"key": f"os-environ-mirror:{k}{':detached-held-reference' if detached and k.startswith('held') else ''}", "clause": "with mirroring on, os.environ equals the mapping children receive", "case": {"op": ev}, "observed": diff, "expected": "equal"})
        return viols

    def _cmp(self, denv, want, ev):
        if not isinstance(denv, dict):
            return [{"key": "launch:raises", "clause": "launch builds a mapping", "case": {"op": ev}, "observed": denv, "expected": want}]
        viols = []
        bad_types = [(a, b) for a, b in denv.items() if not isinstance(a, str) or not isinstance(b, str)]
        if bad_types:
            viols.append({"key": "launch:non-string-entry", "clause": "string-to-string mapping", "case": {"op": ev}, "observed": repr(bad_types[:3]), "expected": "str->str"})
        for var in sorted(set(denv) | set(want)):
            if denv.get(var) != want.get(var):
                layers = [kind for kind, d in self.scopes if var in d] + (["percmd"] if (ev[1] and var in ev[1]) else [])
                if "percmd" in layers and "overlay" in layers:
                    layers = ["percmd-under-overlay"]
                how = "held-reference" if (var == "PATH" and self.held is self.base.get("PATH") and not layers) else ("layers=" + "+".join(layers) if layers else "plain")
                state = "missing" if var not in denv else ("extra" if var not in want else "stale-or-wrong")
                viols.append(
                    {
                        "key": f"launch-reflects-current-values:{var if var in ('PATH', 'FOO', 'BAR', 'NEW') else 'other'}:{how}:{state}",
                        "clause": "the mapping handed to a child reflects the values at launch time",
                        "case": {"op": ev, "var": var},
                        "observed": denv.get(var, "<absent>"),
                        "expected": want.get(var, "<absent>"),
                    }
                )
        return viols

    def _real_child(self, denv):
        self.n_children += 1
        r = subprocess.run(["/usr/bin/env", "-0"], env=denv, capture_output=True, timeout=30)
        got = dict(x.split("=", 1) for x in r.stdout.decode("utf-8", "surrogateescape").split("\0") if "=" in x)
        if got != denv:
            return [{"key": "real-child-sees-mapping", "clause": "a real child process observes the mapping", "case": {}, "observed": sorted(set(got.items()) ^ set(denv.items()))[:4], "expected": "equal"}]
        return []


def _factory():
    return Harness()


# ------------------------------------------------------------------ part C: per-command prefixes in pipelines


def _part_c(ctx):
    """`$X=1 cmd` prefixes on every subset of the stages of 1-3 stage pipelines, end to end through the
    parser and cmds_to_specs with REAL children that write what they received to a file."""
    import itertools

    d = common.scratch_dir("c10c")
    bindir = os.path.join(d, "bin")
    os.makedirs(bindir)
    with open(os.path.join(bindir, "penv"), "w") as f:
        f.write('#!/bin/sh\nprintf "X=%s;Y=%s" "${X-<unset>}" "${Y-<unset>}" > "$1"\n')
    os.chmod(os.path.join(bindir, "penv"), 0o755)
    xsh = load_session(data_dir=d, path=[bindir, "/usr/bin", "/bin"], env={"XONSH_SUBPROC_RAISE_ERROR": False, "Y": "gy"})
    prefixes = [None, ("X", "1"), ("Y", "2"), ("X", "a b")]
    n_cases = 0
    for nst in (1, 2, 3):
        for combo in itertools.product(prefixes, repeat=nst):
            if nst == 3 and sum(p is not None for p in combo) > 2 and not ctx.thorough:
                continue
            outs = [os.path.join(d, f"o{i}") for i in range(nst)]
            for o in outs:
                if os.path.exists(o):
                    os.unlink(o)
            stages = []
            for i, p in enumerate(combo):
                pre = "" if p is None else f"${p[0]}={p[1]!r} "
                stages.append(f"{pre}penv {outs[i]}")
            line = " | ".join(stages)
            try:
                xsh.execer.exec(line + "\n", glbs=xsh.ctx)
                err = None
            except Exception as e:  # noqa: BLE001
                err = f"{type(e).__name__}: {e}"[:200]
            n_cases += 1
            for i, p in enumerate(combo):
                want = {"X": "<unset>", "Y": "gy"}
                if p is not None:
                    want[p[0]] = p[1]
                wants = f"X={want['X']};Y={want['Y']}"
                got = open(outs[i]).read() if os.path.exists(outs[i]) else None
                if err or got != wants:
                    ctx.violation(
                        f"percmd-prefix-in-pipeline:stage{i + 1}of{nst}:{'own-prefix-lost' if p is not None and got is not None and got != wants else 'foreign-or-missing'}",
                        "a per-command `$X=1 cmd` prefix reaches exactly its own command's child",
                        {"line": line, "stage": i},
                        err or got,
                        wants,
                    )
                    break
            if "X" in xsh.env or xsh.env.get("Y") != "gy":
                ctx.violation("percmd-prefix-leaks-into-session", "the prefix does not outlive the command", {"line": line}, {"X": xsh.env.get("X"), "Y": xsh.env.get("Y")}, {"X": None, "Y": "gy"})
    # list-valued prefixes (`$LIBPATH=@([d1, d2]) cmd`, a glob with several matches): the child receives what
    # the same value gives in a scope of the session itself (differential oracle: env.swap + detype)
    with open(os.path.join(bindir, "pany"), "w") as f:
        f.write('#!/bin/sh\neval "v=\\${$2-<unset>}"\nprintf "%s" "$v" > "$1"\n')
    os.chmod(os.path.join(bindir, "pany"), 0o755)
    for name in ("XVLIBPATH", "XVL"):
        for val in (["d1"], ["d1", "d2"], ["d1", "d2", "d 3"], ["", "d2"]):
            out = os.path.join(d, "ol")
            if os.path.exists(out):
                os.unlink(out)
            # (`@(...)` always yields a list: a one-element list stands for its element)
            with xsh.env.swap({name: list(val) if len(val) > 1 else val[0]}):
                want = xsh.env.detype().get(name, "<unset>")
            line = f"${name}=@({val!r}) pany {out} {name}"
            try:
                xsh.execer.exec(line + "\n", glbs=xsh.ctx)
                err = None
            except Exception as e:  # noqa: BLE001
                err = f"{type(e).__name__}: {e}"[:200]
            n_cases += 1
            got = open(out).read() if os.path.exists(out) else None
            if err or got != want:
                ctx.violation(
                    f"percmd-prefix-list-value:{'path-like' if name.endswith('PATH') else 'plain'}:{len(val)}-elements",
                    "a per-command prefix hands the child the value given at launch",
                    {"line": line},
                    err or got,
                    want,
                )
    ctx.sample({"pipeline": "penv o0 | $X='1' penv o1 | $Y='2' penv o2", "stage2_child_sees": "X=1;Y=gy"})
    return n_cases


# ------------------------------------------------------------------ part D: typed values edited in place ($LS_COLORS)


def _part_d(ctx):
    """$LS_COLORS is a typed mapping that keeps its own export string.  Every sequence (depth <= 4,
    thorough 5) of in-place edits - including edits that change only the hidden 'target' flag of a key -
    and launches; the string a child receives must equal what a FRESHLY built LsColors of the same content
    exports (differential oracle)."""
    import itertools

    from xonsh.environ import Env, LsColors
    from xonsh.procs.specs import SubprocSpec

    d = common.scratch_dir("c10d")
    load_session(data_dir=d)
    vals = {"t": "target", "r": ("RESET",), "b": ("BLUE",)}
    events = [("set", "ln", v) for v in vals] + [("set", "di", "b"), ("del", "di"), ("launch",), ("reassign",)]
    depth = ctx.pick(4, 5)
    n = 0
    for L in range(1, depth + 1):
        for hist in itertools.product(events, repeat=L):
            if hist[-1][0] != "launch":
                continue
            from xonsh.built_ins import XSH

            model = {"ln": ("RESET",), "di": ("BLUE",)}
            env = Env({"UPDATE_OS_ENVIRON": False, "PATH": [], "LS_COLORS": LsColors(dict(model))})
            XSH.env = env
            held = env["LS_COLORS"]
            for i, ev in enumerate(hist):
                if ev[0] == "set":
                    held[ev[1]] = vals[ev[2]]
                    model[ev[1]] = vals[ev[2]]
                elif ev[0] == "del":
                    if ev[1] in model:
                        del held[ev[1]]
                        del model[ev[1]]
                elif ev[0] == "reassign":
                    env["LS_COLORS"] = LsColors(dict(model))
                    held = env["LS_COLORS"]
                else:
                    n += 1
                    spec = SubprocSpec.__new__(SubprocSpec)
                    spec.env = None
                    kw = {}
                    spec.prep_env_subproc(kw)
                    got = kw["env"].get("LS_COLORS", "<absent>")
                    want = LsColors(dict(model)).detype()
                    if got != want:
                        only_flag = [e for e in hist[:i] if e[0] == "set" and e[1] == "ln"]
                        ctx.violation(
                            key=f"launch-reflects-current-values:LS_COLORS:edited-in-place:{'stale-after-target-flag-change' if only_flag else 'stale-or-wrong'}",
                            clause="the mapping handed to a child reflects the values at launch time",
                            case={"part": "D", "history": [list(e) for e in hist[: i + 1]]},
                            observed=got,
                            expected=want,
                        )
                        break
    return n



# ------------------------------------------------------------------ part E: overlays attached by return_command aliases


def _part_e(ctx):
    """A return_command alias may hand back {"cmd": ..., "env": {...}}: the overlay belongs to that ONE
    command.  Every sequence of <= 3 invocations over the lines built from three such aliases (one returns
    a dict object it keeps and reuses, one a fresh dict, one a plain list), chained to depth 2, with a real
    child that reports what it received: each child sees exactly the overlays of the aliases on its own
    line, whatever ran before, and the dict the alias keeps is never written to."""
    import itertools
    import json as _json
    import sys as _sys

    from xonsh.built_ins import subproc_captured_stdout

    d = common.scratch_dir("c10e")
    xsh = load_session(data_dir=d, path=["/usr/bin", "/bin"], env={"XONSH_SUBPROC_RAISE_ERROR": False, "XONSH_INTERACTIVE": False})
    keys = ("XE_A", "XE_B", "XE_C")
    printer = [_sys.executable, "-c", "import os,json;print(json.dumps({k:os.environ.get(k) for k in %r}))" % (keys,)]
    kept = {"XE_A": "kept"}

    @xsh.aliases.return_command
    def _mk(args):
        return {"cmd": list(args), "env": kept}

    @xsh.aliases.return_command
    def _dbg(args):
        return {"cmd": list(args), "env": {"XE_B": "1", "XE_C": "all"}}

    @xsh.aliases.return_command
    def _raw(args):
        return list(args)

    xsh.aliases["mk"], xsh.aliases["dbg"], xsh.aliases["raw"] = _mk, _dbg, _raw
    overlay = {"mk": {"XE_A": "kept"}, "dbg": {"XE_B": "1", "XE_C": "all"}, "raw": {}}
    lines = [()] + [(a,) for a in overlay] + [(a, b) for a in overlay for b in overlay if a != b]
    n = 0
    for seq in itertools.product(range(len(lines)), repeat=ctx.pick(2, 3)):
        if not ctx.thorough and seq[0] == seq[1]:
            continue
        for i, li in enumerate(seq):
            line = lines[li]
            got = _json.loads(subproc_captured_stdout(list(line) + printer))
            n += 1
            want = {k: None for k in keys}
            for a in line:
                want.update(overlay[a])
            if got != want or kept != {"XE_A": "kept"}:
                ctx.violation(
                    key="alias-overlay-reaches-exactly-its-own-command:" + ("alias-kept-dict-written-to" if kept != {"XE_A": "kept"} else "child-sees-overlay-of-an-earlier-command" if any(got.get(k) and not want.get(k) for k in keys) else "overlay-missing"),
                    clause="the mapping handed to a child reflects the values at launch time (an alias overlay belongs to the one command it was returned with)",
                    case={"part": "E", "lines": [" ".join(lines[j]) + " <printer>" for j in seq[: i + 1]]},
                    observed={"child": got, "dict_kept_by_alias": dict(kept)},
                    expected={"child": want, "dict_kept_by_alias": {"XE_A": "kept"}},
                )
                kept.clear()
                kept.update({"XE_A": "kept"})
                break
    return n



def run(ctx):
    evals, nontrivial, skipped, nvars = _part_a(ctx)
    ctx.log(f"part A: {nvars} registered variables/types, {evals} (variable, value) round trips, {skipped} skipped (no validator/converter/detyper)")
    n_c = _part_c(ctx)
    n_d = _part_d(ctx)
    n_e = _part_e(ctx)
    ctx.log(f"part E (return_command overlays): {n_e} real children")
    ctx.log(f"part D ($LS_COLORS edited in place): {n_d} launches")
    ctx.log(f"part C: {n_c} pipelines with per-command prefixes through real children")
    depth = ctx.pick(5, 7)
    r = seqx.bfs(_factory, depth, ctx, budget_s=ctx.pick(45, 800), chunk=8)
    ctx.add_violations(r["violations"])
    for s in r["sample_histories"]:
        ctx.sample({"history": s})
    # the mapping handed to children is computed concurrently by alias threads and the main thread:
    # the launch-time clause is also explored under schedules (one thread launches while another
    # assigns / swaps), reusing the C11 scheduler harness
    from . import c11_sched

    sched = c11_sched.run_part(ctx, pairs=[("swapA", "setBar"), ("observer", "setBar")])
    ctx.coverage.update(
        schedule_part=sched["summary"],
        states=r["states"],
        transitions=r["transitions"],
        traces_validated_against_impl=r["transitions"],
        depth_completed=r["depth_completed"],
        depth_requested=depth,
        exhaustive=r["exhaustive"],
        caps_hit=r["capped"],
        level_sizes=r["level_sizes"],
        alphabet=len(seqx._H.events),
        roundtrip_evaluations=evals,
        roundtrip_distinct=nontrivial,
        roundtrip_variables=nvars,
        roundtrip_skipped=skipped,
        percmd_pipeline_cases=n_c,
        explanation="part B transitions execute the real Env operations and the real SubprocSpec.prep_env_subproc; every launch is compared with a from-scratch detype of the reference's logical values; part A: every registered variable x every pool value its validator accepts",
    )
    ctx.assumptions += ["LC_* variables skipped (setlocale side effects)", "variables with an accept-anything validator have no defined value domain and are skipped in part A"]


class _ReplayCtx:
    """Collects what a part reports when it is re-run for a replay."""

    thorough = False
    seed = 0
    jobs = 1

    def __init__(self):
        self.found = []

    def pick(self, a, b):
        return a

    def log(self, *a):
        pass

    def violation(self, **kw):
        self.found.append(kw)


def replay(rec):
    if rec["case"].get("part") in ("D", "E"):
        # these parts are small enumerations: re-run the part and look for the recorded key
        rc = _ReplayCtx()
        (_part_d if rec["case"]["part"] == "D" else _part_e)(rc)
        hit = [v for v in rc.found if v["key"] == rec["key"]]
        for v in hit[:3]:
            print("VIOLATION", v["key"], "case=", v["case"], "observed=", v["observed"], "expected=", v["expected"])
        return 1 if hit else 0
    if "history" not in rec["case"]:
        print("part A case:", rec["case"], "observed", rec["observed"], "expected", rec["expected"])
        return 1
    h = Harness()
    h.reset()
    vs = []
    for ev in rec["case"]["history"]:
        vs = h.step(ev, True)
        print(ev, "->", "base", h.base, "scopes", h.scopes)
    for v in vs:
        print("VIOLATION", v["key"], "observed=", v["observed"], "expected=", v["expected"])
    return 1 if vs else 0
