"""C14 - history garbage collection only ever discards the oldest, unlocked history.

Bounded-exhaustive exploration of the REAL collectors:

* JSON backend: ``JsonHistory.run_gc(size=.., force=..)`` -> ``JsonHistoryGC.run`` executed synchronously
  (``Thread.start`` of the GC thread is replaced by a direct call of its ``run``) on a scratch
  ``$XONSH_DATA_DIR`` whose history files are written with the real LazyJSON writer in exactly the
  layout a real session leaves behind (self-checked against ``JsonHistory`` + ``flush(at_exit=True)``),
  under a virtual ``time.time`` (rebound inside ``xonsh.history.json`` only) and the REAL
  ``xonsh.xoreutils.uptime.boottime()`` reading the clocks of a simulated machine (``time`` / ``open``
  rebound inside that module only: booted at B, suspended 1 h since; see _SimMachine), so a lock is
  judged stale against the real boot instant B whatever source the boot time is computed from.  Every collection of <= N files x command counts {0,1,2,3} x locked flag x corrupt member
  {none, empty file, truncated JSON} x equal-timestamp pattern x boot position (stale locks) x unit
  {files, commands, s, b} x every boundary value of the limit x force {F,T}.
* every truncation length of a genuine history file as the corrupt member;
* every spelling of the limit accepted by ``to_history_tuple`` (direct, ``size=`` and ``$XONSH_HISTORY_SIZE``);
* SQLite backend: ``SqliteHistory.run_gc(size=(N, 'commands'))`` on every table of <= 5 rows x tie pattern
  x insertion order x N in 0..6;
* (xv/c14_live.py) histories of a running session: every short sequence of {append+flush, external
  delete / truncation of the open session's file, GC pass} on a real JsonHistory - the open session's
  file is never collected nor counted as closed, a recreated file is locked like a fresh session's;
* (xv/c14_live.py) the real GC *thread* driven through its wait_for_shell handshake while
  ``$XONSH_HISTORY_SIZE`` changes L1 -> L2: the limit in force when the collector acts decides.

The oracle is the ~30-line reference in ``accept_sets`` written from the property statement.

Does NOT require (behaviour the statement leaves open is accepted either way):
* a particular order between files / rows of equal timestamp (every order is accepted; for SQLite
  keeping all rows tied with the oldest kept row is accepted as well);
* whether a file whose age is exactly the ``s`` limit is kept;
* the refuse-unless-forced threshold where the readings of "discard more than it keeps" differ: the
  code refuses when discarded >= limit, the statement says "more than it keeps".  Refusal is REQUIRED
  only when discarded > limit and discarded > everything kept (incl. locked files); running is REQUIRED
  only when discarded < limit and discarded <= amount kept; in between both outcomes pass;
* anything about unreadable members themselves (an empty or truncated file may be collected as a
  0-command file of its mtime, or be left alone and not counted) - only that they do not disturb the
  collection of the readable files;
* (REQUIRED, from "deletes strictly oldest-first": the unlink calls of a pass are recorded through an
  ``os`` shim in the module namespace and must be oldest-first, ties either way - an interrupted pass
  then leaves the newest files);
* the text of the refusal warning, negative limits, files dated in the future, non-"commands" units
  for SQLite (documented as unsupported).
"""

import io
import itertools
import os
import shutil

from . import common
from .session import load_session

LEVEL = "exploration"

NOW = 1_000_000.0  # virtual time.time() inside xonsh.history.json
AGE = 10.0  # age difference between consecutive timestamp groups; the newest group is AGE old
UNITS = ("files", "commands", "s", "b")
NAMES = ("c", "a", "e", "b", "d", "f")  # position (oldest first) -> file id; not in age order on purpose
OK_STATES = [("ok", c, l) for l in (False, True) for c in (1, 0, 2, 3)]  # simplest first
CORRUPT_STATES = [("empty", 0, False), ("trunc", 2, False)]
PAD = 400  # 'inverse' padding: files with fewer commands get more bytes


# ============================================================================ reference (statement)


def _weight(f, unit):
    return 1 if unit == "files" else f["cmds"] if unit == "commands" else f["size"]


def _amount(fs, unit):
    return sum(_weight(f, unit) for f in fs)


def _tie_orders(cands):
    """Every oldest-first ordering of the candidates (equal timestamps in any order)."""
    groups = []
    for f in sorted(cands, key=lambda f: f["ts"]):
        if groups and groups[-1][0]["ts"] == f["ts"]:
            groups[-1].append(f)
        else:
            groups.append([f])
    for combo in itertools.product(*[itertools.permutations(g) for g in groups]):
        yield [f for g in combo for f in g]


def _keep_counts(order, unit, limit):
    """How many of the newest files form 'the largest set of newest files that fits'."""
    if unit == "s":  # a file fits while it is younger than the limit; exactly-at-the-limit is left open
        ages = [NOW - f["ts"] for f in order]
        return {sum(1 for a in ages if a < limit), sum(1 for a in ages if a <= limit)}
    n = tot = 0
    for f in reversed(order):
        if tot + _weight(f, unit) > limit:
            break
        tot += _weight(f, unit)
        n += 1
    return {n}


def _outcomes(order, keep_n, unit, limit, force, live):
    """Acceptable deletion sets for one ordering: full prefix, nothing (refusal), or both."""
    dele, keep = order[: len(order) - keep_n], order[len(order) - keep_n :]
    if not dele:
        return {frozenset()}, "within-limit"
    full = frozenset(f["name"] for f in dele)
    if force:
        return {full}, "forced"
    if unit == "s":  # discards the span beyond the limit, keeps the last `limit` seconds
        d = max(NOW - f["ts"] for f in dele) - limit
        votes = [d < limit, d <= limit]
    else:
        d, k = _amount(dele, unit), _amount(keep, unit)
        votes = [d < limit, d <= limit, d <= k, d <= k + _amount(live, unit)]
    if all(votes):
        return {full}, "must-run"
    if not any(votes):
        return {frozenset()}, "must-refuse"
    return {full, frozenset()}, "either"


def classify_files(files, boot):
    live = [f for f in files if f["kind"] == "ok" and f["locked"] and f["ts"] >= boot]
    sure = [f for f in files if f["kind"] == "ok" and not (f["locked"] and f["ts"] >= boot)]
    corrupt = [f for f in files if f["kind"] != "ok"]
    return live, sure, corrupt


def accept_sets(files, boot, unit, limit, force, primary_only=False, details=None, leave_corrupt=False):
    """All deletion sets the statement allows.  files: dicts name/kind/ts/cmds/size/locked.
    Returns (set of frozenset(names), decision label of the primary reading); `details` (a list)
    receives (candidate deletion prefix, label) of every reading."""
    live, sure, corrupt = classify_files(files, boot)
    accept, label = set(), None
    # an unreadable member is either left alone (None) or collected as a file of its mtime with 0 / its
    # nominal number of commands
    options = [[None] if leave_corrupt else [None, 0] + ([f["cmds"]] if f["cmds"] else []) for f in corrupt]
    for variant in itertools.product(*options):
        cands = list(sure)
        for f, v in zip(corrupt, variant):
            if v is not None:
                cands.append(dict(f, cmds=v))
        for order in _tie_orders(cands):
            for keep_n in sorted(_keep_counts(order, unit, limit)):
                outs, lab = _outcomes(order, keep_n, unit, limit, force, live)
                accept |= outs
                if details is not None:
                    details.append((frozenset(f["name"] for f in order[: len(order) - keep_n]), lab))
                if label is None:
                    label = lab
                if primary_only:
                    return accept, label
    return accept, label


def classify_mismatch(files, boot, unit, limit, force, deleted, refused_msg):
    """Name the violated clause of the statement (stable, input-independent signature)."""
    live, sure, corrupt = classify_files(files, boot)
    if deleted & {f["name"] for f in live}:
        return "locked-deleted"
    by = {f["name"]: f for f in files}
    readable_deleted = [by[n] for n in deleted if by[n]["kind"] == "ok"]
    for s in sure:
        if s["name"] not in deleted and any(s["ts"] < d["ts"] for d in readable_deleted):
            return "not-oldest-first"
    details = []  # judged against the reading that matches what happened to the unreadable members
    accept_sets(files, boot, unit, limit, force, details=details, leave_corrupt=not (deleted & {f["name"] for f in corrupt}))
    labels = {lab for _, lab in details}
    if not deleted:
        return "refused-but-must-run" if refused_msg else "under-delete:deleted-nothing"
    if any(full == deleted and lab == "must-refuse" for full, lab in details):
        return "refusal-missing"  # the right files, but the run had to be refused
    if labels == {"within-limit"}:
        return "deleted-within-limit"
    fulls = [full for full, _ in details if full]
    if fulls and all(full < deleted for full in fulls):
        return "over-delete"
    if fulls and all(deleted < full for full in fulls):
        return "under-delete:partial"
    return "wrong-set"


# ============================================================================ harness (real code)


class _VTime:
    now = NOW

    def time(self):
        return self.now

    hook = None  # set by the start-up handshake part: decides when a wait inside xonsh ends

    def sleep(self, _s):
        if self.hook is not None:
            self.hook()


class _SimMachine:
    """The ``time`` module (and ``open``) of a simulated machine, rebound inside xonsh.xoreutils.uptime ONLY,
    so that the boot time the collector compares session starts with comes from the REAL
    ``uptime.boottime()`` -> ``_boot_time_linux()``: wall clock W, booted at B, suspended for S seconds
    since (CLOCK_BOOTTIME = W - B counts the suspended time, CLOCK_MONOTONIC = W - B - S does not).
    source: which of the module's Linux sources is available -
      'clock_boottime'  time.CLOCK_BOOTTIME exists (every Linux CPython >= 3.7; the branch reached here)
      'proc_stat'       no CLOCK_BOOTTIME -> 'btime' line of /proc/stat
      'monotonic'       neither -> boottime()'s last resort time.time() - CLOCK_MONOTONIC (cannot know S;
                        only exercised with S = 0)"""

    CLOCK_MONOTONIC = 1
    _BOOTTIME_ID = 7

    def __init__(self):
        self.W, self.B, self.S, self.source = NOW, 0.0, 3600.0, "clock_boottime"
        self.clock_ids = set()

    def __getattr__(self, name):  # only consulted for attributes that do not exist
        if name == "CLOCK_BOOTTIME" and self.source == "clock_boottime":
            return self._BOOTTIME_ID
        raise AttributeError(name)

    def time(self):
        return self.W

    def clock_gettime(self, cid):
        self.clock_ids.add((self.source, cid))
        if cid == self._BOOTTIME_ID and self.source == "clock_boottime":
            return self.W - self.B
        if cid == self.CLOCK_MONOTONIC:
            return self.W - self.B - self.S
        raise OSError(22, "Invalid argument")

    def open(self, path, *a, **k):
        if path == "/proc/stat" and self.source == "proc_stat":
            self.clock_ids.add((self.source, "/proc/stat"))
            return io.StringIO(f"cpu  10 0 10 100 0 0 0 0 0 0\nintr 5\nctxt 9\nbtime {int(self.B)}\nprocesses 3\n")
        raise FileNotFoundError(2, "No such file or directory", path)


class _OsShim:
    """``os`` as seen by xonsh.history.json: everything real, the order of unlink calls recorded."""

    def __init__(self, real):
        self._real = real
        self.removed = []

    def __getattr__(self, name):
        return getattr(self._real, name)

    def remove(self, path, *a, **k):
        self.removed.append(path)
        return self._real.remove(path, *a, **k)

    unlink = remove


class _BootCtl:
    """`.boot = B` boots the simulated machine at B (and drops uptime.boottime()'s cache)."""

    def __init__(self, sim, real_uptime):
        self.sim, self.real = sim, real_uptime

    @property
    def boot(self):
        return self.sim.B

    @boot.setter
    def boot(self, value):
        self.sim.B = value
        self.real.boottime.cache_clear()

    def machine(self, source="clock_boottime", suspended=3600.0):
        self.sim.source, self.sim.S = source, suspended
        self.real.boottime.cache_clear()


class _W:  # per-process harness state
    ready = None  # pid that initialised it
    cache = {}


def _init_worker():
    if _W.ready == os.getpid():
        return
    d = common.scratch_dir("c14")
    _W.data = d
    _W.xsh = load_session(data_dir=d, env={"XONSH_HISTORY_BACKEND": "json"})
    import xonsh.history.json as hj
    import xonsh.history.sqlite as hsq
    import xonsh.lib.lazyjson as xlj

    _W.hj, _W.hsq, _W.xlj = hj, hsq, xlj
    import xonsh.xoreutils.uptime as real_uptime

    _W.vt, _W.printed = _VTime(), []
    _W.sim = _SimMachine()
    _W.up = _BootCtl(_W.sim, real_uptime)
    hj.time = _W.vt  # virtual clock: rebound in this module's namespace only
    _W.osrec = _OsShim(getattr(hj.os, "_real", hj.os))
    hj.os = _W.osrec  # real os; records the order in which a pass unlinks files
    _W.rm_order = []
    hj.uptime = real_uptime  # the REAL boot-time code ...
    real_uptime.time = _W.sim  # ... reading the clocks of a simulated machine (default: suspended for 1 h)
    real_uptime.open = _W.sim.open
    if real_uptime._get_boot_time_func() is not real_uptime._boot_time_linux:
        raise common.ToolError("not the Linux boot-time path")
    hj.print = lambda *a, **k: _W.printed.append(" ".join(str(x) for x in a))

    real_gc = getattr(hj, "_xv_real_gc", None) or hj.JsonHistoryGC
    hj._xv_real_gc = real_gc

    class SyncJsonGC(real_gc):
        def start(self):  # run the thread body in the caller: deterministic, exceptions reach the harness
            self.run()

    class SyncSqliteGC(hsq.SqliteHistoryGC):
        def start(self):
            self.run()

    hj.JsonHistoryGC = SyncJsonGC
    hsq.SqliteHistoryGC = SyncSqliteGC
    _W.histdir = os.path.join(d, "history_json")
    os.makedirs(_W.histdir, exist_ok=True)
    sess = os.path.join(d, "session")
    os.makedirs(sess, exist_ok=True)
    # the running session (its own file lives outside the scanned directories)
    _W.hist = hj.JsonHistory(filename=os.path.join(sess, "xonsh-current.json"), gc=False, ts=[NOW, None], locked=True, env={})
    _W.xsh.history = _W.hist
    _W.ready = os.getpid()
    _selfcheck_format()


def _hist_dict(cmds, locked, ts, name, pad):
    env = {"PAD": "x" * (PAD * (3 - cmds))} if pad else {}
    return {
        "cmds": [{"cwd": "/", "inp": f"cmd {j}\n", "rtn": 0, "ts": [ts - 2.0 + j / 4, ts - 1.9 + j / 4]} for j in range(cmds)],
        "env": env,
        "locked": bool(locked),
        "sessionid": name,
        "ts": [ts, None] if locked else [ts - 2.0, ts],
    }


def _content(kind, cmds, locked, ts, name, pad, cut=None):
    key = (kind, cmds, locked, ts, name, pad, cut)
    data = _W.cache.get(key)
    if data is None:
        if kind == "empty":
            data = b""
        else:
            import xonsh.lib.lazyjson as xlj  # the real writer

            buf = io.StringIO()
            xlj.ljdump(_hist_dict(cmds, locked, ts, name, pad), buf, sort_keys=True)
            data = buf.getvalue().encode("utf-8")
            if kind == "trunc":
                data = data[: (len(data) // 2 if cut is None else cut)]
        _W.cache[key] = data
    return data


def _selfcheck_format():
    """The files this harness writes are byte-identical to what a real session leaves behind."""
    hj = _W.hj
    tmp = os.path.join(_W.data, "session", "xonsh-fmt.json")
    for cmds in (0, 1, 3):
        if os.path.exists(tmp):
            os.remove(tmp)
        ts = NOW - 50.0
        _W.vt.now = ts - 2.0
        h = hj.JsonHistory(filename=tmp, sessionid="fmt", gc=False, ts=[ts - 2.0, None], locked=True, env={})
        for c in _hist_dict(cmds, False, ts, "fmt", 0)["cmds"]:
            h.append(dict(c))
        _W.vt.now = ts
        h.flush(at_exit=True)
        with open(tmp, "rb") as f:
            real = f.read()
        if cmds == 0:  # nothing to flush: the file is still the locked stub written by __init__
            mine_d = _hist_dict(0, True, ts - 2.0, "fmt", 0)
            buf = io.StringIO()
            _W.xlj.ljdump(mine_d, buf, sort_keys=True)
            mine = buf.getvalue().encode()
        else:
            mine = _content("ok", cmds, False, ts, "fmt", 0)
        if real != mine:
            raise common.ToolError(f"harness history files differ from the real writer's ({cmds} cmds):\n{real!r}\n{mine!r}")
    os.remove(tmp)
    _W.vt.now = NOW


def _layout(states, mask):
    groups = []
    for i in range(len(states)):
        groups.append(0 if i == 0 else groups[-1] + (0 if (mask >> (i - 1)) & 1 else 1))
    top = groups[-1] if groups else 0
    return groups, top, [NOW - AGE * (top - g + 1) for g in groups]


def _boot_value(top, pos):
    """Boot instant such that exactly the timestamp groups < pos lie before it."""
    return NOW - AGE * (top - pos + 1) - AGE / 2


def _materialise(states, mask, pad, cut=None):
    """Write the collection; returns the oracle's view of it (what is on disk, not what GC thinks)."""
    groups, top, tss = _layout(states, mask)
    files = []
    for i, (kind, cmds, locked) in enumerate(states):
        name = NAMES[i]
        data = _content(kind, cmds, locked, tss[i], name, pad, cut)
        path = os.path.join(_W.histdir, f"xonsh-{name}.json")
        with open(path, "wb") as f:
            f.write(data)
        if kind != "ok":
            os.utime(path, (tss[i], tss[i]))
        files.append({"name": name, "kind": kind, "cmds": cmds, "locked": bool(locked), "ts": tss[i], "size": len(data), "group": groups[i]})
    return files, top


def _clean_histdir():
    for n in os.listdir(_W.histdir):
        os.remove(os.path.join(_W.histdir, n))


def _gc_json(size, force, boot, via_env=False):
    """One real collection.  Returns (deleted names or None, crash text, refusal printed?)."""
    before = set(os.listdir(_W.histdir))
    _W.vt.now = NOW
    _W.up.boot = boot
    del _W.printed[:]
    del _W.osrec.removed[:]
    crash = None
    try:
        if via_env:
            _W.xsh.env["XONSH_HISTORY_SIZE"] = size
            _W.hist.run_gc(size=None, force=force)
        else:
            _W.hist.run_gc(size=size, force=force)
    except Exception as e:  # noqa: BLE001 - in a real session this kills the GC thread
        crash = f"{type(e).__name__}: {e}"[:160]
    after = set(os.listdir(_W.histdir))
    deleted = frozenset(n[len("xonsh-") : -len(".json")] for n in before - after)
    extra = after - before
    if extra:
        crash = (crash or "") + f" left new files {sorted(extra)}"
    _W.rm_order = [os.path.basename(p)[len("xonsh-") : -len(".json")] for p in _W.osrec.removed]
    refused = any("garbage collection would discard" in p for p in _W.printed)
    return deleted, crash, refused


def _limits(files, boot, unit, rich):
    """Every boundary value of the limit for this collection and unit: each point where the reference
    outcome can change as a function of the limit (fit boundaries = newest-first partial sums / ages,
    refusal boundaries = discarded amount), 0 and total+1.  rich: the full -1/0/+1 (and +-0.5 s)
    neighbourhood of every boundary; otherwise the two sides of every boundary (v-1, v) for b and
    (a-1, a+1) for s - the exactly-at-the-age point is left open by the oracle anyway."""
    live, sure, corrupt = classify_files(files, boot)
    vals = {0}
    subsets = [sure] + ([sure + corrupt] if corrupt else [])
    for subset in subsets:
        order = sorted(subset, key=lambda f: -f["ts"])  # newest first
        if unit == "files":
            vals.update(range(0, len(order) + 2))
        elif unit == "commands":
            vals.update(range(0, sum(f["cmds"] for f in order) + 2))
        elif unit == "b":
            total = sum(f["size"] for f in order)
            sums = [0]
            for f in order:
                sums.append(sums[-1] + f["size"])
            for k, p in enumerate(sums):
                vals.update((p - 1, p, p + 1) if rich else (p - 1, p))
                nxt = sums[k + 1] if k + 1 < len(sums) else total + 2
                d = total - p  # discarded while the limit is in [p, nxt)
                vals.update(v for v in (d - 1, d, d + 1) if p <= v < nxt)
            vals.add(total + 1)
        else:
            ages = sorted({NOW - f["ts"] for f in order})
            for a in ages:
                vals.update((a - 1, a - 0.5, a, a + 0.5, a + 1) if rich else (a - 1, a + 1))
            if ages:
                vals.update((ages[-1] / 2 - 1, ages[-1] / 2, ages[-1] / 2 + 1, ages[-1] - 0.5))
    vals = sorted(v for v in vals if v >= 0)
    if unit == "s":
        return [float(v) for v in vals]
    return [int(v) for v in vals]


def _units_for(states, cfg):
    """files / s do not look at command counts: on the largest collections they are run for command
    counts {0,2} only (stated bound), commands / b for all of {0,1,2,3}."""
    if cfg.get("narrow") and any(s[0] == "ok" and s[1] not in (0, 2) for s in states):
        return ("commands", "b")
    return UNITS


def _boot_positions(files, top, mode):
    """Boot positions that give distinct sets of stale (pre-reboot) locks."""
    seen, out = set(), []
    positions = range(0, top + 2) if mode == "all" else (0, top + 1) if mode == "ends" else (0,)
    for p in positions:
        stale = frozenset(f["name"] for f in files if f["kind"] == "ok" and f["locked"] and f["group"] < p)
        if stale not in seen:
            seen.add(stale)
            out.append(p)
    return out


def _case(states, mask, pos, pad, unit, limit, force, **kw):
    c = {"part": "json", "files": [list(s) for s in states], "ties": mask, "boot_pos": pos, "pad": pad, "unit": unit, "limit": limit, "force": force}
    c.update(kw)
    return c


def _unlink_order_bad(files):
    """'deletes strictly oldest-first': the GC thread is a daemon that can die at any point of a pass, so
    the ORDER of the unlink calls matters - after k unlinks the k oldest doomed files must be the ones
    gone.  Returns the offending order, or None (equal timestamps may go either way)."""
    order = _W.rm_order
    if len(order) < 2:
        return None
    ts = {f["name"]: f["ts"] for f in files}
    seq = [ts[n] for n in order if n in ts]
    return list(order) if any(a > b for a, b in zip(seq, seq[1:])) else None


def _judge(files, boot, unit, limit, force, deleted, crash, refused):
    """None if the outcome is allowed, else (clause, expected)."""
    if crash:
        return "crash:" + crash.split(":")[0].strip(), "no exception"
    acc, _ = accept_sets(files, boot, unit, limit, force, primary_only=True)
    if deleted not in acc:
        acc, _ = accept_sets(files, boot, unit, limit, force)
    if deleted in acc:
        order = _unlink_order_bad(files)
        if order:
            by_age = sorted(order, key=lambda n: next(f["ts"] for f in files if f["name"] == n))
            return "unlink-order-not-oldest-first", {"unlink_order_observed": order, "oldest_first": by_age}
        return None
    return classify_mismatch(files, boot, unit, limit, force, deleted, refused), sorted(sorted(a) for a in acc)


def _key(clause, unit, limit, force):
    """<clause>[:<unit>][:limit=0] - which guarantee broke, in which unit's selection; the 0 boundary is
    kept apart because it is a separate code path (slices / empty sub-selects)."""
    if clause in ("locked-deleted", "unlink-order-not-oldest-first"):  # not decided by the unit's selection
        return "json:" + clause
    return f"json:{clause}:{unit}" + (":limit=0" if limit == 0 else "")


_CFG = {}  # n -> {"boots": "all"|"ends", "pads": (0, 1), "rich": bool}


def _check_collection(item):
    states, mask = item
    cfg = _CFG[len(states)]
    _clean_histdir()
    evals = nontrivial = refusals = deletions = 0
    viols = {}
    files0, top = _materialise(states, mask, 0)
    boots = cfg["boots"]
    if boots == "ends-if-distinct":
        boots = "ends" if mask == 0 else "live"
    for pos in _boot_positions(files0, top, boots):
        boot = _boot_value(top, pos)
        for unit in _units_for(states, cfg):
            for pad in cfg["pads"] if unit == "b" else (0,):
                files, _ = _materialise(states, mask, pad)
                dirty = False
                for limit in _limits(files, boot, unit, cfg["rich"]):
                    for force in (False, True):
                        if force and not cfg["rich"] and accept_sets(files, boot, unit, limit, False, primary_only=True)[1] == "within-limit":
                            continue  # larger collections: --force only where the history exceeds the limit
                        if dirty:
                            _materialise(states, mask, pad)
                        deleted, crash, refused = _gc_json((limit, unit), force, boot)
                        dirty = bool(deleted or crash or pos > 0)  # stale locks are rewritten in place
                        evals += 1
                        acc, label = accept_sets(files, boot, unit, limit, force, primary_only=True)
                        if label != "within-limit":
                            nontrivial += 1
                        refusals += bool(refused)
                        deletions += bool(deleted)
                        bad = None if (deleted in acc and not crash and len(_W.rm_order) < 2) else _judge(files, boot, unit, limit, force, deleted, crash, refused)
                        if bad:
                            key = _key(bad[0], unit, limit, force)
                            if key not in viols:
                                viols[key] = {
                                    "key": key,
                                    "clause": bad[0],
                                    "case": _case(states, mask, pos, pad, unit, limit, force),
                                    "observed": {"deleted": sorted(deleted), "crash": crash, "refusal_warning": refused},
                                    "expected": {"acceptable_deletion_sets": bad[1]},
                                    "note": _describe(files, boot),
                                    "n": 0,
                                }
                            viols[key]["n"] += 1
    return {"evals": evals, "nontrivial": nontrivial, "refusals": refusals, "deletions": deletions, "viols": list(viols.values())}


def _describe(files, boot):
    return "files oldest first: " + "; ".join(
        f"{f['name']}[{f['kind']} cmds={f['cmds']} {'LOCKED' + ('(stale)' if f['ts'] < boot else '') if f['locked'] else 'unlocked'} age={NOW - f['ts']:g}s {f['size']}B]" for f in files
    )


def _collections(nmax, max_corrupt, masks_mode, narrow_corrupt=lambda n: False):
    """(states, tie mask) simplest first: by size, corrupt members last, distinct timestamps first.
    narrow_corrupt(n): collections of n files that contain a corrupt member take locked members with 2
    commands only (a live locked file's command count never enters the collection)."""
    states_all = OK_STATES + CORRUPT_STATES
    for n in range(0, nmax + 1):
        mm = masks_mode(n)
        for states in itertools.product(states_all, repeat=n):
            ncorrupt = sum(1 for s in states if s[0] != "ok")
            if ncorrupt > max_corrupt(n):
                continue
            if ncorrupt and narrow_corrupt(n) and any(s[0] == "ok" and s[2] and s[1] != 2 for s in states):
                continue
            if mm == "all":
                masks = range(0, 1 << max(0, n - 1))
            elif mm == "distinct":
                masks = [0]
            else:  # distinct, each single adjacent pair, all equal
                masks = sorted({0} | {1 << i for i in range(max(0, n - 1))} | {(1 << max(0, n - 1)) - 1})
            for mask in masks:
                yield (states, mask)


# ---------------------------------------------------------------------------- truncation sweep


TRUNC_BASES = ((2, False), (1, True))
TRUNC_CONFIGS = (("files", 1, True), ("commands", 1, False), ("files", 5, False))


def _trunc_items(step=64):
    items = []
    for base_cmds, locked in TRUNC_BASES:
        full = len(_content("ok", base_cmds, locked, NOW - 20.0, NAMES[1], 0))
        for lo in range(1, full, step):
            items.append((base_cmds, locked, lo, min(full, lo + step), full))
    return items


def _check_truncations(item):
    """Every truncation length of a genuine file as the middle member of [old, TRUNC, new]."""
    base_cmds, locked, lo, hi, full = item
    out = {"evals": 0, "nontrivial": 0, "viols": []}
    seen = {}
    states = (("ok", 1, False), ("trunc", base_cmds, locked), ("ok", 1, False))
    for cut in range(lo, hi):
        for unit, limit, force in TRUNC_CONFIGS:
            for pos in (0, 3):
                _clean_histdir()
                # an unreadable member is left alone or collected: both pass (see accept_sets); that also
                # covers a damaged file whose 'locked' flag still reads true
                files, top = _materialise(states, 0, 0, cut=cut)
                boot = _boot_value(top, pos)
                deleted, crash, refused = _gc_json((limit, unit), force, boot)
                out["evals"] += 1
                out["nontrivial"] += limit < 5
                acc, _ = accept_sets(files, boot, unit, limit, force)
                if crash or deleted not in acc:
                    clause = ("crash:" + crash.split(":")[0].strip()) if crash else "wrong-set"
                    key = f"json-truncated:{clause}:{unit}"
                    if key not in seen:
                        seen[key] = {
                            "key": key,
                            "clause": clause,
                            "case": _case(states, 0, pos, 0, unit, limit, force, cut=cut),
                            "observed": {"deleted": sorted(deleted), "crash": crash, "refusal_warning": refused},
                            "expected": {"acceptable_deletion_sets": sorted(sorted(a) for a in acc)},
                            "note": f"member 'a' is a genuine {base_cmds}-command file cut to {cut} of {full} bytes",
                            "n": 0,
                        }
                    seen[key]["n"] += 1
    out["viols"] = list(seen.values())
    return out


# ---------------------------------------------------------------------------- boot-time sources

BOOT_STATES = [("ok", 1, False), ("ok", 2, False), ("ok", 1, True), ("ok", 2, True)]
# (source, seconds the machine was suspended since boot); the main enumeration runs on ('clock_boottime', 3600)
MACHINES = [("clock_boottime", 3600.0), ("clock_boottime", 0.0), ("proc_stat", 0.0), ("proc_stat", 3600.0), ("monotonic", 0.0)]


def _boot_items(nmax):
    out = []
    for n in range(1, nmax + 1):
        for states in itertools.product(BOOT_STATES, repeat=n):
            if any(s[2] for s in states):
                for mask in range(0, 1 << (n - 1)):
                    out.append((states, mask))
    return out


def _check_boot_sources(item):
    """Locked members x every boot position, with the boot time produced by each source the real
    uptime module has on Linux, on a machine that was / was not suspended: a lock is stale only if its
    session started before the REAL boot."""
    states, mask = item
    out = {"evals": 0, "nontrivial": 0, "viols": [], "boot_source_runs": 0, "boot_paths": []}
    seen = {}
    _clean_histdir()
    files, top = _materialise(states, mask, 0)
    try:
        for source, susp in MACHINES:
            _W.up.machine(source, susp)
            for pos in _boot_positions(files, top, "all"):
                boot = _boot_value(top, pos)
                for unit in UNITS:
                    for limit in _limits(files, boot, unit, False):
                        for force in (True, False):
                            _materialise(states, mask, 0)
                            deleted, crash, refused = _gc_json((limit, unit), force, boot)
                            out["evals"] += 1
                            out["boot_source_runs"] += 1
                            out["nontrivial"] += pos > 0
                            bad = _judge(files, boot, unit, limit, force, deleted, crash, refused)
                            if bad:
                                key = f"json-boot:{bad[0]}:{source}:suspended={int(susp)}s"
                                if bad[0] == "unlink-order-not-oldest-first":
                                    key = _key(bad[0], unit, limit, force)
                                if key not in seen:
                                    seen[key] = {
                                        "key": key,
                                        "clause": bad[0],
                                        "case": _case(states, mask, pos, 0, unit, limit, force, machine=[source, susp]),
                                        "observed": {"deleted": sorted(deleted), "crash": crash, "refusal_warning": refused, "boottime()": _W.hj.uptime.boottime()},
                                        "expected": {"acceptable_deletion_sets": bad[1], "real_boot": boot},
                                        "note": _describe(files, boot) + f"; boot-time source {source}, machine suspended {susp:g} s since boot",
                                        "n": 0,
                                    }
                                seen[key]["n"] += 1
    finally:
        out["boot_paths"] = sorted(f"{src}:{cid}" for src, cid in _W.sim.clock_ids)
        _W.up.machine()
    out["viols"] = list(seen.values())
    return out


# ---------------------------------------------------------------------------- spellings of the limit

_MULT = {  # independent table of what the documented unit names mean (None = convention, range-checked)
    "commands": ({"": 1, "c": 1, "cmd": 1, "cmds": 1, "command": 1, "commands": 1}, int),
    "files": ({"f": 1, "files": 1}, int),
    "s": (
        {"s": 1, "sec": 1, "second": 1, "seconds": 1, "m": 60, "min": 60, "mins": 60, "h": 3600, "hr": 3600, "hour": 3600, "hours": 3600,
         "d": 86400, "day": 86400, "days": 86400, "mon": None, "month": None, "months": None, "y": None, "yr": None, "yrs": None, "year": None, "years": None},
        float,
    ),
    "b": (
        {"b": 1, "byte": 1, "bytes": 1, "kb": 1024, "kilobyte": 1024, "kilobytes": 1024, "mb": 1024**2, "meg": 1024**2, "megs": 1024**2,
         "megabyte": 1024**2, "megabytes": 1024**2, "gb": 1024**3, "gig": 1024**3, "gigs": 1024**3, "gigabyte": 1024**3, "gigabytes": 1024**3,
         "tb": 1024**4, "terabyte": 1024**4, "terabytes": 1024**4},
        int,
    ),
}
_RANGE = {"mon": (28 * 86400, 31 * 86400), "y": (365 * 86400, 366 * 86400)}


FORM_NAMES = ("N unit", "Nunit", "padded-uppercase", "(int, unit)", "[str, Unit]", "(float, unit)", "bare-int", "bare-str")


def _spellings(value, word):
    forms = [f"{value} {word}", f"{value}{word}", f"  {value}   {word.upper()} ", (value, word), [str(value), word.capitalize()], (float(value), word)]
    if word == "":
        forms += [value, str(value)]
    return forms


def _parse_verdict(canon, word, value, form):
    """(observed, expected text, ok) for to_history_tuple(form)."""
    from xonsh.tools import to_history_tuple

    words, typ = _MULT[canon]
    mult = words[word]
    try:
        got = to_history_tuple(form)
    except Exception as e:  # noqa: BLE001
        return f"{type(e).__name__}: {e}", f"({value}*{mult}, {canon!r})", False
    if mult is None:  # month / year: a convention, only range-checked
        lo, hi = _RANGE["mon" if word.startswith("mon") else "y"]
        return got, f"({lo * value}..{hi * value}, {canon!r})", got[1] == canon and lo * value <= got[0] <= hi * value
    return got, f"({typ(value * mult)!r}, {canon!r})", tuple(got) == (typ(value * mult), canon) and type(got[0]) is typ


def _check_spellings(only_canon):

    out = {"evals": 0, "nontrivial": 0, "viols": [], "spellings": 0}
    seen = {}

    def bad(key, clause, case, observed, expected):
        if key not in seen:
            seen[key] = {"key": key, "clause": clause, "case": case, "observed": observed, "expected": expected, "note": "", "n": 0}
        seen[key]["n"] += 1

    states = (("ok", 2, False), ("ok", 1, False), ("ok", 1, True), ("ok", 3, False), ("ok", 1, False))
    for canon, (words, typ) in _MULT.items():
        if canon != only_canon:
            continue
        for word, mult in sorted(words.items()):
            for value in (0, 1, 2, 3):
                for fi, form in enumerate(_spellings(value, word)):
                    out["evals"] += 1
                    out["spellings"] += 1
                    case = {"part": "spelling-parse", "canon": canon, "word": word, "value": value, "form": fi}
                    got, exp, ok = _parse_verdict(canon, word, value, form)
                    if not ok:
                        kind = "rejected" if isinstance(got, str) else "value"
                        bad(f"spelling:{kind}:{canon}:{word or 'bare'}:{FORM_NAMES[fi]}", "spelling", case, repr(got), exp)
                        continue
                    # the GC obeys the spelled limit exactly as it obeys the canonical tuple (small multipliers only)
                    if mult is None or mult > 1024 or value == 0 and fi > 1:
                        continue
                    for via_env in (False, True):
                        for force in (True, False):
                            _clean_histdir()
                            files, top = _materialise(states, 0, 0)
                            boot = _boot_value(top, 0)
                            limit = typ(value * mult)
                            deleted, crash, refused = _gc_json(form, force, boot, via_env=via_env)
                            out["evals"] += 1
                            out["nontrivial"] += 1
                            verdict = _judge(files, boot, canon, limit, force, deleted, crash, refused)
                            if verdict:
                                # the same failure with the canonical tuple is the collector's defect, not the spelling's
                                _clean_histdir()
                                _materialise(states, 0, 0)
                                v2 = _judge(files, boot, canon, limit, force, *_gc_json((limit, canon), force, boot))
                                if v2 and v2[0] == verdict[0]:
                                    key = _key(verdict[0], canon, limit, force)
                                else:
                                    key = f"spelling-gc:{verdict[0]}:{canon}:{FORM_NAMES[fi]}:{'via-env' if via_env else 'via-size-arg'}"
                                bad(
                                    key,
                                    verdict[0],
                                    _case(states, 0, 0, 0, canon, limit, force, spelled=form if isinstance(form, (str, int)) else list(form), via_env=via_env),
                                    {"deleted": sorted(deleted), "crash": crash, "refusal_warning": refused},
                                    {"acceptable_deletion_sets": verdict[1]},
                                )
    out["viols"] = list(seen.values())
    return out


# ---------------------------------------------------------------------------- SQLite backend


def sqlite_accept(rows, keep):
    """rows: list of (id, tsb).  Acceptable survivor id-sets for 'keeps the newest `keep` commands'."""
    acc = set()
    by_ts = sorted(rows, key=lambda r: r[1])
    groups = []
    for r in by_ts:
        if groups and groups[-1][0][1] == r[1]:
            groups[-1].append(r)
        else:
            groups.append([r])
    for combo in itertools.product(*[itertools.permutations(g) for g in groups]):
        order = [r for g in combo for r in g]
        kept = order[max(0, len(order) - keep) :] if keep > 0 else []
        acc.add(frozenset(r[0] for r in kept))
        if kept:  # rows tied with the oldest kept row may stay as well
            edge = kept[0][1]
            acc.add(frozenset(r[0] for r in order if r[1] >= edge))
    return acc


def _orders(n, all_orders):
    if all_orders:
        return list(itertools.permutations(range(n)))
    ident = tuple(range(n))
    rots = {ident[i:] + ident[:i] for i in range(n)} | {ident[::-1]} | {tuple(sorted(ident, key=lambda i: (i % 2, i)))}
    return sorted(rots)


def _check_sqlite(item):
    n, mask, orders = item
    hsq = _W.hsq
    out = {"evals": 0, "nontrivial": 0, "viols": []}
    seen = {}
    groups = []
    for i in range(n):
        groups.append(0 if i == 0 else groups[-1] + (0 if (mask >> (i - 1)) & 1 else 1))
    rows = [(f"r{i}", NOW - 100.0 + 10.0 * g) for i, g in enumerate(groups)]
    fn = os.path.join(_W.data, "xonsh-history.sqlite")
    for perm in orders:
        for keep in range(0, 7):
            for suffix in ("", "-wal", "-shm"):
                if os.path.exists(fn + suffix):
                    os.remove(fn + suffix)
            setattr(hsq.XH_SQLITE_CACHE, hsq.XH_SQLITE_CREATED_SQL_TBL, False)
            h = hsq.SqliteHistory(gc=False)
            if h.filename != fn:
                raise common.ToolError(f"unexpected sqlite file {h.filename}")
            for k, j in enumerate(perm):
                h.sessionid = f"s{k % 2}"
                h.append({"inp": rows[j][0], "rtn": 0, "ts": [rows[j][1], rows[j][1] + 1.0], "cwd": "/"})
            crash = None
            try:
                h.run_gc(size=(keep, "commands"))
            except Exception as e:  # noqa: BLE001
                crash = f"{type(e).__name__}: {e}"[:160]
            left = frozenset(it["inp"] for it in h.all_items())
            out["evals"] += 1
            out["nontrivial"] += keep < n
            acc = sqlite_accept(rows, keep)
            if crash or left not in acc:
                if crash:
                    clause = "crash:" + crash.split(":")[0]
                elif len(left) == n and keep < n:
                    clause = "deleted-nothing"
                elif any(left < a for a in acc):
                    clause = "kept-too-few"
                elif any(a < left for a in acc):
                    clause = "kept-too-many"
                else:
                    clause = "not-the-newest"
                key = f"sqlite:{clause}:{'keep=0' if keep == 0 else 'keep>0'}"
                if key not in seen:
                    seen[key] = {
                        "key": key,
                        "clause": clause,
                        "case": {"part": "sqlite", "rows": [list(r) for r in rows], "insert_order": list(perm), "keep": keep},
                        "observed": {"left": sorted(left), "crash": crash},
                        "expected": {"acceptable_survivor_sets": sorted(sorted(a) for a in acc)},
                        "note": "",
                        "n": 0,
                    }
                seen[key]["n"] += 1
    out["viols"] = list(seen.values())
    return out


# ============================================================================ driver


def _dispatch(work):
    from . import c14_live

    kind, item = work
    fn = {"coll": _check_collection, "trunc": _check_truncations, "spell": _check_spellings, "sqlite": _check_sqlite, "boot": _check_boot_sources,
          "live": c14_live.check_sequences, "startup": c14_live.check_startup}[kind]  # fmt: skip
    return fn(item)


def _merge(ctx, results, totals):
    for r in results:
        totals["evals"] += r["evals"]
        totals["nontrivial"] += r["nontrivial"]
        for k in ("refusals", "deletions", "spellings", "live_sequences", "startup_runs", "boot_source_runs"):
            totals[k] = totals.get(k, 0) + r.get(k, 0)
        totals.setdefault("boot_paths", set()).update(r.get("boot_paths", ()))
        for v in r["viols"]:
            n = v.pop("n", 1)
            v["note"] = (v.get("note") or "") + f" [{n} failing limit/force combination(s) for this collection]"
            ctx.add_violations([v])


def run(ctx):
    global _CFG
    if ctx.thorough:
        nmax = 5
        _CFG = {n: {"boots": "all", "pads": (0, 1), "rich": True} for n in range(0, 4)}
        _CFG[4] = {"boots": "ends-if-distinct", "pads": (0,), "rich": False, "narrow": True}
        _CFG[5] = {"boots": "live", "pads": (0,), "rich": False, "narrow": True}
        max_corrupt = lambda n: 2 if n <= 3 else 1  # noqa: E731
        masks_mode = lambda n: "all" if n <= 4 else "distinct"  # noqa: E731
        narrow_corrupt = lambda n: n >= 5  # noqa: E731
        sqlite_all_orders = 5
        live_depths, startup_nmax, boot_nmax = (4, 4), 3, 3
    else:
        nmax = 4
        _CFG = {n: {"boots": "all", "pads": (0, 1), "rich": True} for n in range(0, 3)}
        _CFG[3] = {"boots": "all", "pads": (0,), "rich": False, "narrow": True}
        _CFG[4] = {"boots": "live", "pads": (0,), "rich": False, "narrow": True}
        max_corrupt = lambda n: 1  # noqa: E731
        masks_mode = lambda n: "all" if n <= 3 else "distinct"  # noqa: E731
        narrow_corrupt = lambda n: n >= 3  # noqa: E731
        sqlite_all_orders = 4
        live_depths, startup_nmax, boot_nmax = (3, 4), 2, 2
    from . import c14_live

    seqs = c14_live.sequences(*live_depths)
    live_items = [seqs[i : i + 60] for i in range(0, len(seqs), 60)]
    st_items = c14_live.startup_collections(startup_nmax)
    colls = list(_collections(nmax, max_corrupt, masks_mode, narrow_corrupt))
    sq_items = []
    for n in range(0, 6):
        orders = _orders(n, n <= sqlite_all_orders)
        for mask in range(0, 1 << max(0, n - 1)):
            for lo in range(0, len(orders), 12):
                sq_items.append((n, mask, orders[lo : lo + 12]))
    tr_items = _trunc_items()
    ctx.log(
        f"{len(colls)} file collections (<= {nmax} files), {len(tr_items)} truncation ranges, {len(_MULT)} unit families, {len(sq_items)} sqlite table batches, "
        f"{len(seqs)} live-session sequences, {len(st_items)} start-up collections"
    )
    # one heterogeneous work list -> one set of workers (each loads one xonsh session)
    work = (
        [("sqlite", it) for it in sq_items] + [("spell", c) for c in _MULT] + [("trunc", it) for it in tr_items]
        + [("live", it) for it in live_items] + [("startup", it) for it in st_items] + [("boot", it) for it in _boot_items(boot_nmax)]
        + [("coll", it) for it in colls]
    )  # fmt: skip
    res = common.pmap(_dispatch, work, ctx.jobs, chunk=4, init=_init_worker, seed=ctx.seed)
    totals = {"evals": 0, "nontrivial": 0}
    sq_tot = {"evals": 0, "nontrivial": 0}
    aux_tot = {"evals": 0, "nontrivial": 0}
    # report collections first (simplest-first), then the auxiliary sweeps
    _merge(ctx, [r for (k, _), r in zip(work, res) if k == "coll"], totals)
    json_runs = totals["evals"]
    _merge(ctx, [r for (k, _), r in zip(work, res) if k in ("trunc", "spell")], aux_tot)
    _merge(ctx, [r for (k, _), r in zip(work, res) if k == "sqlite"], sq_tot)
    _merge(ctx, [r for (k, _), r in zip(work, res) if k in ("live", "startup", "boot")], aux_tot)
    for k in ("evals", "nontrivial", "spellings", "live_sequences", "startup_runs", "boot_source_runs"):
        totals[k] = totals.get(k, 0) + aux_tot.get(k, 0)
    ctx.log(
        f"json GC runs: {json_runs} (+{aux_tot['evals']} truncation/spelling/live/start-up; {totals.get('live_sequences', 0)} live sequences, "
        f"{totals.get('startup_runs', 0)} start-up handshakes, {totals.get('boot_source_runs', 0)} boot-source runs), sqlite runs: {sq_tot['evals']}"
    )
    ctx.sample({"live_session_sequence": [list(e) for e in seqs[len(seqs) // 2]]})
    for it in common.pick_samples(colls, ctx.seed, 6):
        ctx.sample({"files_oldest_first": [list(s) for s in it[0]], "tie_mask": it[1]})
    ctx.sample({"sqlite_rows": sq_items[-1][0], "tie_mask": sq_items[-1][1], "keep": "0..6", "insert_orders": [list(o) for o in sq_items[-1][2][:3]]})
    ctx.coverage.update(
        evaluations=totals["evals"] + sq_tot["evals"],
        distinct_nontrivial=totals["nontrivial"] + sq_tot["nontrivial"],
        rule=(
            f"every collection of <= {nmax} history files (state per file: commands in {{0,1,2,3}} x locked flag, or an empty / truncated file; "
            "equal-timestamp patterns; boot positions making locks stale) x unit {files,commands,s,b} x every boundary value of the limit "
            "x force, each executed through the real JsonHistory.run_gc on real files (the largest sizes are narrowed as listed under bounds); "
            "plus every truncation length of a genuine file, every "
            "spelling accepted by to_history_tuple, SqliteHistory.run_gc on every table of <= 5 rows x tie pattern x insertion order x keep 0..6; "
            f"every sequence (depth <= {live_depths[0]}, plus depth {live_depths[1]} ending 'flush, gc') of {{append+flush, delete / truncate the open session's file, "
            "GC pass}} on a real open JsonHistory next to two closed sessions; and the real GC thread driven through its wait_for_shell handshake "
            f"with $XONSH_HISTORY_SIZE changed L1->L2 while it waits, for every ordered pair of boundary limits on collections of <= {startup_nmax} files. "
            "non-trivial = runs where the history exceeds the limit (something must be deleted or the run refused)"
        ),
        exhaustive=True,
        collections=len(colls),
        json_gc_runs=json_runs,
        json_runs_that_deleted=totals.get("deletions", 0),
        json_runs_that_refused=totals.get("refusals", 0),
        spellings_checked=totals.get("spellings", 0),
        sqlite_runs=sq_tot["evals"],
        live_session_sequences=totals.get("live_sequences", 0),
        startup_handshake_runs=totals.get("startup_runs", 0),
        boot_source_runs=totals.get("boot_source_runs", 0),
        boot_time_paths_reached=sorted(totals.get("boot_paths", set()) | aux_tot.get("boot_paths", set())),
        bounds={
            "boot_time": "real xonsh.xoreutils.uptime.boottime() on a simulated machine; every run: CLOCK_BOOTTIME source, suspended 3600 s; "
            f"collections of <= {boot_nmax} files with a locked member additionally on {MACHINES}",
            "live_sequence_depth": list(live_depths),
            "startup_collection_max_files": startup_nmax,
            "max_files": nmax,
            "command_counts": [0, 1, 2, 3],
            "per_collection_size": {
                str(n): {
                    "tie_patterns": masks_mode(n),
                    "boot_positions": _CFG[n]["boots"],
                    "max_corrupt_members": max_corrupt(n),
                    "locked_members_2_commands_only_when_corrupt_present": bool(narrow_corrupt(n)),
                    "byte_paddings": list(_CFG[n]["pads"]),
                    "full_limit_neighbourhood_and_force_everywhere": _CFG[n]["rich"],
                    "files_and_s_units_only_for_command_counts_0_2": bool(_CFG[n].get("narrow")),
                }
                for n in range(0, nmax + 1)
            },
            "sqlite_rows": 5,
            "sqlite_keep": [0, 6],
            "sqlite_all_insertion_orders_up_to_rows": sqlite_all_orders,
        },
    )
    ctx.assumptions += [
        "history files carry timestamps not later than the (virtual) current time; limits are >= 0",
        "the history directory is not modified concurrently while the collector runs (single collector, run synchronously)",
        "unreadable members are modelled by an empty file and by every truncation of a genuine file",
        "boot time: Linux path of xonsh.xoreutils.uptime (CLOCK_BOOTTIME branch of _boot_time_linux is the one reached; /proc/stat btime and, for a "
        "never-suspended machine only, the time()-CLOCK_MONOTONIC last resort are covered by hiding the earlier sources); session starts are >= 5 s away from the boot instant",
    ]
    ctx.notes.append(
        "refuse-unless-forced: the code refuses when discarded >= limit (xonsh/history/json.py `size_over < hsize`), the statement says "
        "'more than it keeps'; the oracle requires refusal only when discarded > limit and > all kept, requires running only when "
        "discarded < limit and <= kept, and accepts both in between (so the equality boundary is not judged)."
    )


# ============================================================================ replay


def replay(rec):
    try:
        return _replay(rec)
    finally:
        shutil.rmtree(common.scratch_root(), ignore_errors=True)


def _replay(rec):
    case = rec["case"]
    _init_worker()
    part = case.get("part")
    if part in ("live-seq", "startup"):
        from . import c14_live

        return c14_live.replay(case)
    if part == "sqlite":
        rows = [tuple(r) for r in case["rows"]]
        hsq = _W.hsq
        fn = os.path.join(_W.data, "xonsh-history.sqlite")
        setattr(hsq.XH_SQLITE_CACHE, hsq.XH_SQLITE_CREATED_SQL_TBL, False)
        h = hsq.SqliteHistory(gc=False)
        for k, j in enumerate(case["insert_order"]):
            h.sessionid = f"s{k % 2}"
            h.append({"inp": rows[j][0], "rtn": 0, "ts": [rows[j][1], rows[j][1] + 1.0], "cwd": "/"})
        h.run_gc(size=(case["keep"], "commands"))
        left = frozenset(it["inp"] for it in h.all_items())
        acc = sqlite_accept(rows, case["keep"])
        print("table (id, tsb):", rows, "file:", fn)
        print(f"run_gc(size=({case['keep']}, 'commands'))")
        print("observed rows left:", sorted(left))
        print("expected one of   :", sorted(sorted(a) for a in acc))
        return 0 if left in acc else 1
    if part == "spelling-parse":
        form = _spellings(case["value"], case["word"])[case["form"]]
        got, exp, ok = _parse_verdict(case["canon"], case["word"], case["value"], form)
        print(f"to_history_tuple({form!r})")
        print("observed:", repr(got))
        print("expected:", exp)
        return 0 if ok else 1
    states = tuple(tuple(s) for s in case["files"])
    _clean_histdir()
    files, top = _materialise(states, case["ties"], case["pad"], cut=case.get("cut"))
    boot = _boot_value(top, case["boot_pos"])
    if "machine" in case:
        _W.up.machine(*case["machine"])
    size = (case["limit"], case["unit"])
    if "spelled" in case:
        size = case["spelled"] if isinstance(case["spelled"], (str, int)) else tuple(case["spelled"])
    deleted, crash, refused = _gc_json(size, case["force"], boot, via_env=case.get("via_env", False))
    acc, label = accept_sets(files, boot, case["unit"], case["limit"], case["force"])
    print(_describe(files, boot))
    print(f"virtual now={NOW:g} real boot={boot:g}, machine: source={_W.sim.source} suspended={_W.sim.S:g}s -> uptime.boottime()={_W.hj.uptime.boottime():g}; run_gc(size={size!r}, force={case['force']})")
    print("observed deleted :", sorted(deleted), "| crash:", crash, "| refusal warning printed:", refused)
    print("expected deletion set, one of:", sorted(sorted(a) for a in acc), f"({label})")
    print("unlink order     :", _W.rm_order)
    verdict = _judge(files, boot, case["unit"], case["limit"], case["force"], deleted, crash, refused)
    if verdict:
        print("violated         :", verdict[0], "| expected:", verdict[1])
    return 1 if verdict else 0
