"""C07 harness: run ONE generated command line through the real `XSH.execer.exec` inside a
dedicated forked process whose fds 0/1/2 ("the terminal") belong to the harness, and report where
every tagged byte ended up.

Stage i (1-based) of a pipeline, whatever its kind, behaves identically:
  * if it was given any argument, writes ``A<i>_<arguments in order, each followed by '_'><i>A`` to
    stdout first (so "argv delivered == argv written": a redirect operator that is mis-lexed
    leaves a stray word in argv, or eats one, and that shows in every sink stdout reaches),
  * reads all of its stdin (when it has one); if it is non-empty, writes the line
    ``I<i>_<input lines in arrival order, each followed by '_'><i>I`` to stdout,
  * writes ``O<i>\\n`` to stdout, then ``E<i>\\n`` to stderr, returns 0.
The order in which two merged streams arrive in a pipe is not fixed by the property, so every
observed line is canonicalised (canon_line: the items between ``I<i>_`` and ``_<i>I`` are sorted,
recursively) before it is compared.  All tokens are [A-Za-z0-9_] only, so `@$()` splitting is just
whitespace splitting.  The script uses shell builtins only (no cat/sort: 3 fewer forks per stage).

Stage kinds: 'ext' = /bin/sh script `st<i>` on a scratch $PATH, 'thr' = threaded callable alias
`ta<i>`, 'unthr' = callable alias `ua<i>` decorated with xonsh.tools.unthreadable; both aliases
only use the stdin/stdout/stderr objects they are handed.
"""

import json
import os
import select
import signal
import sys
import time

from . import common

CASE_TIMEOUT = 5.0  # wall-clock seconds for exec() of one line
MAX_STAGES = 4

_SH = """#!/bin/sh
{sleep}if [ $# -gt 0 ]; then a=""; for x in "$@"; do a="${{a}}${{x}}_"; done; echo "A{i}_${{a}}{i}A"; fi
in=""
z=0
while IFS= read -r l || [ -n "$l" ]; do case "$l" in Zz*) z=$((z+1));; *) in="${{in}}${{l}}_";; esac; done
if [ $z -gt 0 ]; then in="${{in}}Z${{z}}_"; fi
if [ -n "$in" ]; then echo "I{i}_${{in}}{i}I"; fi
echo O{i}
echo E{i} >&2
exit 0
"""

# "bulk" alias stages put FILL_FLUSHED filler lines of FILL_LINE bytes into their stdout and flush
# (just under the 64 KiB of a pipe: the write itself never blocks), then FILL_LAZY more lines that
# stay in the stream wrapper.  Every stage counts the filler lines it reads and reports `Z<count>`;
# the harness compresses filler in every sink it reads to one `Z<count>` line.
FILL_LINE = "Z" + "z" * 998 + "\n"
FILL_FLUSHED = 64
FILL_LAZY = 4
FILL_DRIP = 6  # a "drip" alias writes this many filler lines to stdout, one per DRIP_SLEEP seconds, each flushed
DRIP_SLEEP = 0.15

# a consumer that leaves at once, without reading its stdin (head -n 0 style)
_SH_EARLY = """#!/bin/sh
echo O{i}
echo E{i} >&2
exit 0
"""
SLOW_SECONDS = 1.0

_bindir = None
_warm = None


def stage_word(kind, i, st=None):
    """Command word of a stage.  Variants (st = the stage dict): 's' = slow consumer (sleeps
    SLOW_SECONDS before it reads), 'l' = lazy alias (never flushes), 'r' = alias that hands its
    output back as the return value (out, err, 0), 'b' / 'B' = bulk alias (first fills the pipe
    through its stdout / stderr)."""
    w = {"ext": "st", "thr": "ta", "unthr": "ua"}[kind] + str(i)
    if st:
        w += {"lazy": "l", "ret": "r"}.get(st.get("style"), "")
        w += {"out": "b", "err": "B", "drip": "d"}.get(_bulk(st), "")
        w += "e" if st.get("early") else ""
        w += "s" if st.get("slow") else ""
    return w


def _bulk(st):
    b = st.get("bulk")
    return "out" if b is True else (b or None)


def stage_stderr(i, bulk=False):
    return (f"Z{FILL_FLUSHED + FILL_LAZY}\n" if bulk else "") + f"E{i}\n"


def stage_stdout(i, stdin_lines, args=(), bulk=False):
    """Reference for what stage i prints on stdout given its argv (without the command word) and
    the multiset of (canonical) lines it read."""
    s = ""
    if args:
        s += f"A{i}_" + "".join(a + "_" for a in args) + f"{i}A\n"
    if stdin_lines:
        s += f"I{i}_" + "".join(ln + "_" for ln in sorted(stdin_lines)) + f"{i}I\n"
    if bulk:
        n = bulk if isinstance(bulk, int) and not isinstance(bulk, bool) else FILL_FLUSHED + FILL_LAZY
        s += f"Z{n}\n"
    return s + f"O{i}\n"


_FILL_RE = None


def compress_filler(text):
    """Replace the filler lines in a sink by one `Z<count>` line at the place of the first."""
    global _FILL_RE
    if not isinstance(text, str) or "Zzzz" not in text:
        return text
    import re

    if _FILL_RE is None:
        _FILL_RE = re.compile(r"^Zz+$")
    out, n, at = [], 0, None
    for ln in text.splitlines(True):
        if _FILL_RE.match(ln.rstrip("\n")):
            if at is None:
                at = len(out)
                out.append(None)
            n += 1
        else:
            out.append(ln)
    if at is not None:
        out[at] = f"Z{n}\n"
    return "".join(out)


def canon_line(line):
    """Sort, recursively, the items a stage echoed from its stdin: I2_O1_E1_2I -> I2_E1_O1_2I.
    Lines that are not well-formed stage echoes are returned unchanged."""
    body = line.rstrip("\n")
    if not (body.startswith("I") and body.endswith("I") and "_" in body):
        return line
    toks = body.split("_")
    pos = 0

    def parse():
        nonlocal pos
        t = toks[pos]
        if len(t) == 2 and t[0] == "I" and t[1].isdigit():
            i = t[1]
            pos += 1
            kids = []
            while pos < len(toks) and toks[pos] != i + "I":
                kids.append(parse())
            if pos >= len(toks):
                raise ValueError(line)
            pos += 1
            return f"I{i}_" + "".join(k + "_" for k in sorted(kids)) + f"{i}I"
        if len(t) == 2 and t[0] == "A" and t[1].isdigit() and (t[1] + "A") in toks[pos + 1 :]:
            # the argv echo of a stage is one item; its words keep their order
            end = toks.index(t[1] + "A", pos + 1)
            unit = "_".join(toks[pos : end + 1])
            pos = end + 1
            return unit
        pos += 1
        return t

    try:
        out = parse()
        if pos != len(toks):
            return line
    except (ValueError, IndexError):
        return line
    return out + line[len(body) :]


def canon_text(text):
    if not text or "I" not in text:
        return text
    return "".join(canon_line(ln) for ln in text.splitlines(True))


def make_bindir():
    """Scratch $PATH directory with st1..st3 (created once per process tree, before forking)."""
    global _bindir
    if _bindir is None:
        d = common.scratch_dir("c07bin")
        for i in range(1, MAX_STAGES + 1):
            p = os.path.join(d, f"st{i}")
            with open(p, "w") as f:
                f.write(_SH.format(i=i, sleep=""))
            os.chmod(p, 0o755)
            p = os.path.join(d, f"st{i}e")
            with open(p, "w") as f:
                f.write(_SH_EARLY.format(i=i))
            os.chmod(p, 0o755)
            p = os.path.join(d, f"st{i}s")
            with open(p, "w") as f:
                f.write(_SH.format(i=i, sleep=f"/bin/sleep {SLOW_SECONDS}\n"))
            os.chmod(p, 0o755)
        _bindir = d
    return _bindir


def _mk_alias(i, style="flush", bulk=False, slow=0.0, early=False):
    def _stage(args, stdin=None, stdout=None, stderr=None):
        if slow:
            time.sleep(slow)
        data = ""
        if stdin is not None and not early:
            data = stdin.read()
        lines = [ln for ln in data.split("\n") if ln != ""]
        nfill = sum(1 for ln in lines if ln.startswith("Zz"))
        lines = [ln for ln in lines if not ln.startswith("Zz")] + ([f"Z{nfill}"] if nfill else [])
        head = ""
        if args:
            head += f"A{i}_" + "".join(str(a) + "_" for a in args) + f"{i}A\n"
        if lines:
            head += f"I{i}_" + "".join(ln + "_" for ln in lines) + f"{i}I\n"
        ehead = ""
        if bulk == "drip":
            # stdout in several flushed chunks over FILL_DRIP * DRIP_SLEEP seconds (the stage is still
            # producing stdout long after an early-exit consumer has left), stderr last
            stdout.write(head)
            for _ in range(FILL_DRIP):
                stdout.write(FILL_LINE)
                stdout.flush()
                time.sleep(DRIP_SLEEP)
            stdout.write(f"O{i}\n")
            stdout.flush()
            try:  # the reader of the pipe stderr feeds may be gone by now: EPIPE is its business
                stderr.write(f"E{i}\n")
                stderr.flush()
            except OSError:
                pass
            return 0
        if bulk == "out":
            stdout.write(head + FILL_LINE * FILL_FLUSHED)
            stdout.flush()  # fits into the empty pipe: returns at once
            head = FILL_LINE * FILL_LAZY
        elif bulk == "err":
            stderr.write(FILL_LINE * FILL_FLUSHED)
            stderr.flush()
            ehead = FILL_LINE * FILL_LAZY
        if style == "ret":
            return (head + f"O{i}\n", ehead + f"E{i}\n", 0)
        stdout.write(head + f"O{i}\n")
        if style == "flush":
            stdout.flush()
        stderr.write(ehead + f"E{i}\n")
        if style == "flush":
            stderr.flush()
        return 0

    _stage.__name__ = f"_c07_stage{i}"
    return _stage


def render(case):
    """The xonsh source text of a case (pure function of the case)."""
    parts = []
    for i, st in enumerate(case["stages"], 1):
        words = []
        trail = []
        for r in st.get("redirs", ()):
            op, tgt, lead = r["op"], r.get("target"), r.get("lead", False)
            glue = "" if r.get("nospace") else " "
            text = op if tgt is None else f"{op}{glue}{tgt}"
            (words if lead else trail).append(text)
        words.append(stage_word(st["kind"], i, st))
        words += list(st.get("args", ()))
        parts.append(" ".join(words + trail + list(st.get("args_after", ()))))
    line = " | ".join(parts)
    cap = case["capture"]
    if cap == "bare":
        return line + "\n"
    if cap == "![]":
        return f"__r = ![{line}]\n"
    if cap == "$[]":
        return f"__r = $[{line}]\n"
    if cap == "$()":
        return f"__r = $({line})\n"
    if cap == "!()":
        return f"__r = !({line})\n__r.end()\n"
    if cap == "@$()":
        return f"c07rec @$({line})\n"
    raise AssertionError(cap)


# ------------------------------------------------------------------ the child: one case


class _CaseTimeout(BaseException):
    pass


def _alarm(signum, frame):
    raise _CaseTimeout()


def _live_children():
    me = os.getpid()
    out = []
    try:
        for tid in os.listdir("/proc/self/task"):
            try:
                with open(f"/proc/self/task/{tid}/children") as f:
                    for p in f.read().split():
                        try:
                            with open(f"/proc/{p}/stat") as g:
                                state = g.read().rsplit(")", 1)[1].split()[0]
                        except OSError:
                            continue
                        if state != "Z":
                            out.append(int(p))
            except OSError:
                pass
    except OSError:
        pass
    return [p for p in out if p != me]


def _subreaper():
    """Orphaned grandchildren are re-parented to the case process, so that it sees (and finally
    removes) every process the command line left behind."""
    try:
        import ctypes

        ctypes.CDLL(None, use_errno=True).prctl(36, 1, 0, 0, 0)  # PR_SET_CHILD_SUBREAPER
    except Exception:  # noqa: BLE001
        pass


def _child(case, resfd):
    """Runs in a freshly forked process; never returns."""
    import threading

    res = {}
    try:
        os.setsid()
        _subreaper()
        base = common.scratch_dir("c07case")
        work = os.path.join(base, "w")
        os.makedirs(work)
        os.chdir(work)
        pre = case.get("pre", {})
        for name, content in sorted(pre.items()):
            if content is None:
                continue
            if content == "<dir>":
                os.makedirs(name)
            elif content == "<rodir>":
                os.makedirs(name)
                os.chmod(name, 0o555)
            else:
                with open(name, "w") as f:
                    f.write(content)
        if case.get("dropcaps"):
            from . import caps

            res["caps_dropped"] = bool(caps.drop_dac_caps())
        before = _snapshot(work)
        # --- the terminal
        t1 = os.path.join(base, "term1")
        t2 = os.path.join(base, "term2")
        fd0 = os.open("/dev/null", os.O_RDONLY)
        fd1 = os.open(t1, os.O_WRONLY | os.O_CREAT | os.O_APPEND, 0o600)
        fd2 = os.open(t2, os.O_WRONLY | os.O_CREAT | os.O_APPEND, 0o600)
        sys.stdout.flush()
        sys.stderr.flush()
        os.dup2(fd0, 0)
        os.dup2(fd1, 1)
        os.dup2(fd2, 2)
        for fd in (fd0, fd1, fd2):
            os.close(fd)
        sys.stdin = sys.__stdin__ = open(0, "r", closefd=False)
        sys.stdout = sys.__stdout__ = open(1, "w", closefd=False)
        sys.stderr = sys.__stderr__ = open(2, "w", closefd=False)
        # --- the session (loaded once by warm_up() in the parent; only the per-case parts change)
        from xonsh.built_ins import XSH
        from xonsh.tools import unthreadable

        XSH.env["PWD"] = work
        XSH.env["OLDPWD"] = work
        XSH.env["XONSH_SUBPROC_RAISE_ERROR"] = False
        for _k, _v in (case.get("env") or {}).items():
            XSH.env[_k] = _v
        rec = {"args": None}

        @unthreadable
        def _rec(args, stdin=None, stdout=None, stderr=None):
            rec["args"] = list(args)
            return 0

        XSH.aliases["c07rec"] = _rec
        for i in range(1, MAX_STAGES + 1):
            XSH.aliases[f"ta{i}"] = _mk_alias(i)
            XSH.aliases[f"ua{i}"] = unthreadable(_mk_alias(i))
        for i, st in enumerate(case["stages"], 1):
            w = stage_word(st["kind"], i, st)
            if st["kind"] == "thr" and w not in XSH.aliases:
                XSH.aliases[w] = _mk_alias(i, st.get("style", "flush"), _bulk(st), SLOW_SECONDS if st.get("slow") else 0.0, bool(st.get("early")))
        src = render(case)
        threads0 = threading.active_count()
        exc = None
        signal.signal(signal.SIGALRM, _alarm)
        signal.setitimer(signal.ITIMER_REAL, CASE_TIMEOUT)
        t_start = time.time()
        try:
            XSH.execer.exec(src, glbs=XSH.ctx, locs=None, filename="<c07>")
        except _CaseTimeout:
            res["hang"] = True
        except SystemExit as e:
            exc = ["SystemExit", str(e.code)]
        except BaseException as e:  # noqa: BLE001 - the outcome of the case
            from xonsh.tools import XonshError

            kind = "XonshError" if isinstance(e, XonshError) else "SyntaxError" if isinstance(e, SyntaxError) else type(e).__name__
            exc = [kind, str(e)[:300]]
        finally:
            signal.setitimer(signal.ITIMER_REAL, 0)
        res["exec_s"] = round(time.time() - t_start, 4)
        res["exc"] = exc
        cap = case["capture"]
        r = XSH.ctx.get("__r")
        if not res.get("hang") and exc is None:
            if cap == "$()":
                res["cap_out"] = r if isinstance(r, str) else repr(r)
            elif cap == "!()":
                res["cap_out"] = _s(getattr(r, "out", None))
                res["cap_err"] = _s(getattr(r, "err", None))
                res["rtn"] = getattr(r, "returncode", None)
            elif cap == "@$()":
                res["cap_args"] = rec["args"]
            elif cap == "![]":
                res["rtn"] = getattr(r, "returncode", None)
            elif cap == "$[]":
                res["ret_is_none"] = r is None
        try:
            sys.stdout.flush()
            sys.stderr.flush()
        except Exception:  # noqa: BLE001
            pass
        # settle: helper threads and children of the pipeline are allowed a short grace
        deadline = time.time() + 1.0
        while time.time() < deadline:
            if threading.active_count() <= threads0 and not _live_children():
                break
            time.sleep(0.005)
        res["extra_threads"] = max(0, threading.active_count() - threads0)
        left = _live_children()
        res["live_children"] = len(left)
        for p in left:
            try:
                os.kill(p, signal.SIGKILL)
            except OSError:
                pass
        res["term1"] = _read(t1)
        res["term2"] = _read(t2)
        after = _snapshot(work)
        res["files"] = {k: compress_filler(v) for k, v in after.items()}
        res["before"] = before
        for k in ("term1", "term2", "cap_out", "cap_err"):
            if k in res:
                res[k] = compress_filler(res[k])
        import shutil

        os.chdir("/")
        for root, dirs, _files in os.walk(base):
            for d in dirs:
                try:
                    os.chmod(os.path.join(root, d), 0o700)
                except OSError:
                    pass
        shutil.rmtree(base, ignore_errors=True)
    except BaseException as e:  # noqa: BLE001 - harness problem, reported as such
        import traceback

        res = {"harness_error": f"{type(e).__name__}: {e}\n{traceback.format_exc()}"}
    try:
        data = json.dumps(res).encode()
        os.write(resfd, data)
        os.close(resfd)
    finally:
        os._exit(0)


def _s(x):
    if x is None:
        return None
    if isinstance(x, bytes):
        return x.decode("utf-8", "replace")
    return str(x)


def _read(p):
    try:
        with open(p, "rb") as f:
            return f.read().decode("utf-8", "replace")
    except OSError:
        return None


def _snapshot(work):
    out = {}
    for root, dirs, files in os.walk(work):
        for d in dirs:
            out[os.path.relpath(os.path.join(root, d), work) + "/"] = "<dir>"
        for fn in files:
            p = os.path.join(root, fn)
            out[os.path.relpath(p, work)] = _read(p)
    return out


# ------------------------------------------------------------------ the parent side


def _session_pids(sid):
    out = []
    for name in os.listdir("/proc"):
        if not name.isdigit():
            continue
        try:
            with open(f"/proc/{name}/stat") as f:
                fields = f.read().rsplit(")", 1)[1].split()
            if int(fields[3]) == sid:  # field 6 of stat = session id
                out.append(int(name))
        except (OSError, ValueError, IndexError):
            continue
    return out


def warm_up():
    """Import everything a pipeline needs once, before forking per case (saves ~200 ms/case)."""
    from .session import load_session

    make_bindir()
    global _warm
    if _warm == os.getpid():
        return
    _warm = os.getpid()
    d = common.scratch_dir("c07warm")
    load_session(data_dir=d, path=[make_bindir()])
    import xonsh.procs.pipelines  # noqa: F401
    import xonsh.procs.posix  # noqa: F401
    import xonsh.procs.proxies  # noqa: F401
    import xonsh.procs.readers  # noqa: F401
    import xonsh.procs.specs  # noqa: F401
    import xonsh.tools  # noqa: F401

    trim_memory()


def trim_memory():
    """Validating the PLY tables leaves ~150 MB of freed heap mapped; giving it back halves the
    cost of the per-case fork."""
    import gc

    gc.collect()
    try:
        import ctypes

        ctypes.CDLL("libc.so.6").malloc_trim(0)
    except Exception:  # noqa: BLE001
        pass


def run_case(case):
    """Fork, run the case in the child, return its observation dict.  A child that does not
    answer within CASE_TIMEOUT + 4 s is killed together with its whole session and reported as a
    hang (an observation, not a tool error)."""
    make_bindir()
    r, w = os.pipe()
    sys.stdout.flush()
    sys.stderr.flush()
    pid = os.fork()
    if pid == 0:
        os.close(r)
        _child(case, w)
        os._exit(0)
    os.close(w)
    chunks = []
    deadline = time.time() + CASE_TIMEOUT + 4.0
    timed_out = False
    while True:
        left = deadline - time.time()
        if left <= 0:
            timed_out = True
            break
        ready, _, _ = select.select([r], [], [], left)
        if not ready:
            timed_out = True
            break
        b = os.read(r, 65536)
        if not b:
            break
        chunks.append(b)
    os.close(r)
    if timed_out:
        for p in _session_pids(pid) + [pid]:
            try:
                os.kill(p, signal.SIGKILL)
            except OSError:
                pass
    try:
        os.waitpid(pid, 0)
    except OSError:
        pass
    if timed_out:
        for p in _session_pids(pid):
            try:
                os.kill(p, signal.SIGKILL)
            except OSError:
                pass
        return {"hang": True, "hard": True}
    try:
        res = json.loads(b"".join(chunks).decode())
    except ValueError:
        raise common.ToolError(f"case child died without a result: {case!r}") from None
    if "harness_error" in res:
        raise common.ToolError(f"case child failed: {res['harness_error']}\ncase={case!r}")
    return res
