"""C05 - chains, exit codes and fail-fast follow the documented truth table.

Bounded-exhaustive enumeration of chain programs (every and/or tree with <= 3 (thorough 4) operands over
`&&` `||` `and` `or` incl. parenthesised sub-chains; operands optionally 2-stage pipelines; every operand form
/ decorator / text kind varied in <= k places; all exit-code assignments; the four settings of the two raise
flags; `;`/newline followers; expression / assignment / `if` statements) executed by the REAL implementation:
  * in-process through `XSH.execer.exec(code, glbs=XSH.ctx)` with callable aliases that log their call and
    return the assigned code (unthreadable = synchronous; a threaded variant in thorough; pipeline stages are
    always threaded because xonsh refuses unthreadable aliases in pipelines);
  * process level through `python -m xonsh --no-rc -c ...` and script files with real /bin/sh children for the
    exit-status clause.
Oracle: xv/c05_ref.py, a small reference interpreter written from the statement and docs/error_handling.rst.
Compared: ordered run log (incl. whether the follower `after` ran), exception class and .returncode; process
level: run log and exit status.

Does NOT require (never flagged) - see also the fork list in c05_ref.py:
  * .cmd / message text of the CalledProcessError, what `x = <chain>` evaluates to, which `if` branch runs;
  * relative order of the two stages of ONE pipeline in the log (they run concurrently);
  * truthiness of `$()`/`$[]` results inspected by and/or (exit code or Python value both accepted);
  * whether an un-inspected `!()` has executed yet; whether the CMD flag overrides the `!()` exemption or fires
    for a failing non-last pipeline stage; whether an `if` condition ending on a failure raises;
  * `@$()` whose inner command fails (docs: raises; statement: last command decides) - the inner always succeeds;
  * decorators on non-last pipeline stages; background `&` operands; programs the grammar rejects (counted);
  * bare operands inside `x = ...` / `if ...:` (Python-mode names; only explicit `![] $[] $() !()` forms there);
  * process level: the exit status when nothing raised but the last command failed (flag off / ignored), and
    whether anything runs after `exit N`.
"""

import ast
import contextlib
import io
import itertools
import os
import signal
import subprocess
import sys
import threading

from . import common
from . import c05_ref as ref

LEVEL = "exploration"

OPS = ("&&", "||", "and", "or")
FORMS = ("bare", "hid", "unc", "out", "obj", "inj")
BRACKET_FORMS = ("hid", "unc", "out", "obj")
DECS = ("", "error_raise", "error_ignore")
TEXTS = ("name", "pyexpr", "words", "nonpy")
FLAGS = ((True, False), (True, True), (False, False), (False, True))  # (RAISE_ERROR, CMD_RAISE_ERROR)
MAXN = 4

# ------------------------------------------------------------------------------------------- the space


def _compositions(n):
    if n == 0:
        yield ()
        return
    for first in range(1, n + 1):
        for rest in _compositions(n - first):
            yield (first,) + rest


def _seqs(lo, n):
    for parts in _compositions(n):
        if len(parts) < 2:
            continue
        choices, pos = [], lo
        for sz in parts:
            choices.append([pos] if sz == 1 else list(_seqs(pos, sz)))
            pos += sz
        for items in itertools.product(*choices):
            for syms in itertools.product(OPS, repeat=len(parts) - 1):
                yield ("seq", items, syms)


def shapes(n):
    """Every chain tree over operands 0..n-1 (flat sequences use Python precedence, nested = parenthesised)."""
    return [0] if n == 1 else list(_seqs(0, n))


def _base_op(stmt, text):
    return ("bare" if stmt == "expr" else "hid", "", text, False)


def _places(stmt, n, base):
    """Single deviations (operand, dimension, value) from the base operand."""
    forms = FORMS if stmt == "expr" else BRACKET_FORMS
    out = []
    for i in range(n):
        out += [(i, 0, f) for f in forms if f != base[0]]
        out += [(i, 1, d) for d in DECS if d != base[1]]
        out += [(i, 2, t) for t in TEXTS if t != base[2]]
        out += [(i, 3, True)]
    return out


def variants(stmt, n, base, k):
    """All operand tuples that depart from `base` in at most k (operand, dimension) places; simplest first."""
    places = _places(stmt, n, base)
    for r in range(k + 1):
        for combo in itertools.combinations(places, r):
            if len({(i, dim) for i, dim, _ in combo}) < r:
                continue
            ops = [list(base) for _ in range(n)]
            for i, dim, v in combo:
                ops[i][dim] = v
            yield tuple(tuple(o) for o in ops)


def variants_form_x_dec(stmt, n, base):
    """One operand (each position in turn) takes every form x decorator combination that departs from the base
    in BOTH dimensions (the single-dimension departures are the k=1 variants); the other operands stay base."""
    forms = FORMS if stmt == "expr" else BRACKET_FORMS
    for i in range(n):
        for f in forms:
            for d in DECS:
                if f == base[0] or d == base[1]:
                    continue
                ops = [tuple(base)] * n
                ops[i] = (f, d, base[2], base[3])
                yield tuple(ops)


KINDS = ("missing", "dir", "noexec", "sig")


def variants_kind(stmt, n, base, full):
    """One operand (each position in turn) is a command that cannot be started / a child that dies of a signal.
    `missing` takes every form x decorator (full: every kind does); the other kinds every decorator, bare."""
    for i in range(n):
        for kind in KINDS:
            forms = ("bare", "hid", "unc", "out", "obj") if (full or kind == "missing") else ("bare",)
            for f in forms:
                for d in DECS:
                    ops = [tuple(base)] * n
                    ops[i] = (f, d, base[2], False, kind)
                    yield tuple(ops)


def variants_pipe_dec(stmt, n, base):
    """One operand (each position in turn) is a 2-stage pipeline `@dec1 A | @dec B`, every decorator pair."""
    for i in range(n):
        for d1 in DECS:
            for d in DECS:
                ops = [tuple(base)] * n
                ops[i] = (base[0], d, base[2], True, "alias", d1)
                yield tuple(ops)


def all_subchains(t):
    """True when the chain's top boolean operator (after Python precedence) has ONLY sub-chains as operands,
    e.g. `a && b || c && d`, `(a || b) && (c || d)`: no command is a direct operand of the outermost operator."""
    if isinstance(t, int):
        return False
    groups = [[t[1][0]]]
    for it, o in zip(t[1][1:], t[2]):
        if o in ref.OR_OPS:
            groups.append([it])
        else:
            groups[-1].append(it)
    if len(groups) > 1:
        return all(len(g) > 1 or not isinstance(g[0], int) for g in groups)
    return all(not isinstance(it, int) for it in groups[0])


def blocks(thorough):
    """The enumerated space as a list of blocks (the product inside a block is complete).  `uniform` restricts
    the shapes to those spelling all their operators symbolically or all as words; `only` = "all_subchains"
    keeps the trees whose outermost operator has only sub-chains as operands; `variant` = "form_x_dec" replaces
    the <=k deviations by the form x decorator cross product on one operand."""
    d = dict(nmin=1, kmin=0, k=0, seps=("nl",), codes=(0, 1), threaded=False, uniform=False, only=None, variant=None)
    if not thorough:
        spec = [
            dict(id="expr-n2", stmt="expr", nmax=2, k=1, bases=("name", "words"), seps=(";", "nl")),
            dict(id="expr-n3-words", stmt="expr", nmin=3, nmax=3, k=1, bases=("words",), seps=("nl",), uniform=True),
            dict(id="expr-n3-name", stmt="expr", nmin=3, nmax=3, k=1, bases=("name",), seps=(";", "nl"), uniform=True),
            dict(id="assign", stmt="assign", nmax=2, k=1, bases=("words",)),
            dict(id="assign-n3", stmt="assign", nmin=3, nmax=3, k=0, bases=("words",)),
            dict(id="if", stmt="if", nmax=2, k=1, bases=("words",)),
            dict(id="if-n3", stmt="if", nmin=3, nmax=3, k=0, bases=("words",)),
            # the smallest chains whose outermost operator has no command as a direct operand (2+2 operands)
            dict(id="expr-n4-subchains-name", stmt="expr", nmin=4, nmax=4, bases=("name",), seps=(";", "nl"), only="all_subchains"),
            dict(id="expr-n4-subchains-words", stmt="expr", nmin=4, nmax=4, bases=("words",), only="all_subchains"),
            # decorator x form on one operand (it is the deciding one for half of the code assignments)
            dict(id="expr-form-x-dec", stmt="expr", nmax=2, bases=("name", "words"), seps=(";", "nl"), variant="form_x_dec"),
            dict(id="assign-form-x-dec", stmt="assign", nmax=2, bases=("name", "words"), variant="form_x_dec"),
            # commands that cannot be started (missing word, ./file without x bit, ./directory) and a real child
            # that dies of SIGTERM, in every operand position; negative codes returned by aliases
            dict(id="expr-kinds-n2", stmt="expr", nmax=2, bases=("name", "words"), variant="kind"),
            dict(id="expr-kinds-n3", stmt="expr", nmin=3, nmax=3, bases=("words",), variant="kind_bare", uniform=True),
            dict(id="expr-negcodes-n2", stmt="expr", nmax=2, k=1, bases=("name", "words"), codes=(0, -1, -15)),
            dict(id="expr-negcodes-n3", stmt="expr", nmin=3, nmax=3, bases=("name", "words"), codes=(0, -1), uniform=True),
            # flat 4-operand chains (one n-ary BoolOp: operands 3 and 4 are built by the parser's n-operand branch);
            # every form at every position.  A 3rd operand that is not the last is what makes a wrongly handled
            # operand 3+ observable: in a 3-operand chain a failing last operand raises either way.
            dict(id="expr-n4-flat-single-op", stmt="expr", nmin=4, nmax=4, bases=("name", "words"), only="flat_single", variant="form"),
            dict(id="expr-n4-flat-mixed", stmt="expr", nmin=4, nmax=4, bases=("words",), only="flat_mixed", variant="form", uniform=True),
            # 2-stage pipeline operands with a decorator on either / both stages, all code combinations
            dict(id="expr-pipe-dec", stmt="expr", nmax=2, bases=("name", "words"), variant="pipe_dec"),
            # a failing $[...] / $(...) nested in a larger Python expression raises like the statement form
            dict(id="nested-list", stmt="list", nmax=1, bases=("name", "words"), seps=(";", "nl"), variant="nested"),
            dict(id="nested-call", stmt="call", nmax=1, bases=("name", "words"), seps=(";", "nl"), variant="nested"),
        ]
    else:
        spec = [
            dict(id="expr-k1-codes012", stmt="expr", nmax=3, k=1, bases=("name", "words"), seps=(";", "nl"), codes=(0, 1, 2)),
            dict(id="expr-k1-texts", stmt="expr", nmax=3, k=1, bases=("pyexpr", "nonpy"), seps=(";", "nl")),
            dict(id="expr-k2-n2", stmt="expr", nmax=2, k=2, kmin=2, bases=("name", "words"), seps=(";", "nl")),
            dict(id="expr-k2-n3", stmt="expr", nmin=3, nmax=3, k=2, kmin=2, bases=("words",), uniform=True),
            dict(id="assign-k1", stmt="assign", nmax=3, k=1, bases=("name", "words"), seps=(";", "nl")),
            dict(id="assign-k2-n2", stmt="assign", nmax=2, k=2, kmin=2, bases=("name", "words"), seps=(";", "nl")),
            dict(id="if-k1", stmt="if", nmax=3, k=1, bases=("name", "words")),
            dict(id="if-k2-n2", stmt="if", nmax=2, k=2, kmin=2, bases=("name", "words")),
            dict(id="expr-n4-k0", stmt="expr", nmin=4, nmax=4, k=0, bases=("name", "words")),
            dict(id="expr-n4-k1", stmt="expr", nmin=4, nmax=4, k=1, kmin=1, bases=("words",), uniform=True),
            dict(id="expr-threaded", stmt="expr", nmax=3, k=1, bases=("name", "words"), threaded=True, uniform=True),
            dict(id="expr-n4-subchains-semicolon", stmt="expr", nmin=4, nmax=4, bases=("name", "words"), seps=(";",), only="all_subchains"),
            dict(id="if-n4-subchains", stmt="if", nmin=4, nmax=4, bases=("name", "words"), only="all_subchains"),
            dict(id="assign-n4-subchains", stmt="assign", nmin=4, nmax=4, bases=("name", "words"), only="all_subchains"),
            dict(id="expr-kinds-n2", stmt="expr", nmax=2, bases=("name", "words"), seps=(";", "nl"), variant="kind_full"),
            dict(id="expr-kinds-n3", stmt="expr", nmin=3, nmax=3, bases=("name", "words"), variant="kind_bare"),
            dict(id="expr-negcodes", stmt="expr", nmax=3, k=1, bases=("name", "words"), codes=(0, -1, -15)),
            dict(id="expr-n4-flat-name", stmt="expr", nmin=4, nmax=4, bases=("name",), only="flat", variant="form"),
            dict(id="nested-list", stmt="list", nmax=1, bases=TEXTS, seps=(";", "nl"), variant="nested", codes=(0, 1, 2, -1)),
            dict(id="nested-call", stmt="call", nmax=1, bases=TEXTS, seps=(";", "nl"), variant="nested", codes=(0, 1, 2, -1)),
            dict(id="expr-pipe-dec", stmt="expr", nmax=3, bases=("name", "words"), seps=(";", "nl"), variant="pipe_dec", uniform=True, codes=(0, 1, 2)),
            dict(id="expr-n4-flat-words-semicolon", stmt="expr", nmin=4, nmax=4, bases=("words",), seps=(";",), only="flat", variant="form"),
        ]
    return [dict(d, **b) for b in spec]


def _uniform(t):
    syms = set()

    def walk(x):
        if not isinstance(x, int):
            syms.update(x[2])
            for y in x[1]:
                walk(y)

    walk(t)
    return syms <= {"&&", "||"} or syms <= {"and", "or"}


def block_items(bi, b):
    items = []
    for n in range(b["nmin"], b["nmax"] + 1):
        shp = shapes(n)
        sis = [si for si in range(len(shp)) if not b["uniform"] or _uniform(shp[si])]
        if b["only"] == "all_subchains":
            sis = [si for si in sis if all_subchains(shp[si])]
        elif b["only"] in ("flat", "flat_single", "flat_mixed"):
            # un-parenthesised chains: one n-ary BoolOp per run of equal-precedence operators
            flat = [si for si in sis if not isinstance(shp[si], int) and all(isinstance(x, int) for x in shp[si][1])]
            single = [si for si in flat if len(set(shp[si][2])) == 1]
            sis = {"flat": flat, "flat_single": single, "flat_mixed": [si for si in flat if si not in single]}[b["only"]]
        for base_text in b["bases"]:
            base = _base_op(b["stmt"], base_text)
            if b["variant"] == "form_x_dec":
                vs = variants_form_x_dec(b["stmt"], n, base)
            elif b["variant"] in ("kind", "kind_full", "kind_bare"):
                vs = variants_kind(b["stmt"], n, base, b["variant"] == "kind_full")
                if b["variant"] == "kind_bare":
                    vs = [v for v in vs if all(o[0] == "bare" and o[1] == "" for o in v)]
            elif b["variant"] == "nested":  # $[...] / $(...) with every decorator, nested in a Python expression
                vs = [((f, d, base_text, False),) for f in ("unc", "out") for d in DECS]
            elif b["variant"] == "pipe_dec":
                vs = variants_pipe_dec(b["stmt"], n, base)
            elif b["variant"] == "form":  # all bare, and every other form at every single position
                vs = [v for v in variants(b["stmt"], n, base, 1) if all(o[1:] == tuple(base[1:]) for o in v)]
            else:
                vs = variants(b["stmt"], n, base, b["k"])
            for ops in vs:
                if b["variant"] is None and _ndev(ops, base) < b["kmin"]:
                    continue
                for si in sis:
                    for sep in b["seps"]:
                        items.append((bi, n, si, ops, sep))
    return items


def _ndev(ops, base):
    return sum(1 for o in ops for a, c in zip(o, base) if a != c)


def mkprog(stmt, tree, ops, sep):
    return {
        "stmt": stmt,
        "tree": tree,
        "ops": [
            dict(form=o[0], dec=o[1], text=o[2], pipe=bool(o[3]), **({"kind": o[4]} if len(o) > 4 else {}), **({"dec1": o[5]} if len(o) > 5 else {}))
            for o in ops
        ],
        "sep": "nl" if stmt == "if" else sep,
    }


def _tree_from_json(t):
    return t if isinstance(t, int) else ("seq", tuple(_tree_from_json(x) for x in t[1]), tuple(t[2]))


def all_names(prog):
    out = []
    for i, op in enumerate(prog["ops"]):
        nm = ref.names(i, op)
        out += [v for v in (nm["inj"], nm["first"], nm["main"]) if v]
    return out


def line_kind(prog):
    """'py' when the chain is an expression CPython itself would parse (explicit forms count as atoms), else 'sh'."""

    def r(t, top=True):
        if isinstance(t, int):
            op = prog["ops"][t]
            return "Z" if op["form"] in BRACKET_FORMS else ref.render_operand(t, op)
        s = r(t[1][0], False)
        for it, o in zip(t[1][1:], t[2]):
            s += {"&&": " and ", "||": " or "}.get(o, f" {o} ") + r(it, False)
        return s if top else "(" + s + ")"

    try:
        ast.parse(r(prog["tree"]), mode="eval")
        return "py"
    except SyntaxError:
        return "sh"


# ------------------------------------------------------------------------------------------- in-process seam

LOG = []
CODES = {}
_XSH = None
_THREADED = None
_BLOCKS = None
_SHAPES = {}


class _Hang(BaseException):
    pass


def _alarm(signum, frame):
    raise _Hang()


def _mk_alias(name, threadable):
    def _cmd(args, stdin=None):
        LOG.append(" ".join([name] + list(args)))
        return CODES.get(name, 0)

    _cmd.__name__ = name
    _cmd.__xonsh_threadable__ = bool(threadable)
    return _cmd


def _install_aliases(threaded):
    global _THREADED
    if _THREADED == threaded:
        return
    al = _XSH.aliases
    for n in range(1, MAXN + 1):
        al[f"m{n}"] = _mk_alias(f"m{n}", threaded)
        al[f"j{n}"] = _mk_alias(f"j{n}", threaded)
        al[f"p{n}"] = _mk_alias(f"p{n}", True)  # xonsh refuses unthreadable aliases in pipelines
        al[f"q{n}"] = _mk_alias(f"q{n}", True)
    al["after"] = _mk_alias("after", threaded)
    _THREADED = threaded


def _mk_unstartable(d, logging_child=False):
    """./nxN (file without x bit), ./ddN (directory) and bin/kN (a real child that kills itself with SIGTERM)."""
    os.makedirs(os.path.join(d, "bin"), exist_ok=True)
    for n in range(1, MAXN + 1):
        with open(os.path.join(d, f"nx{n}"), "w") as f:
            f.write("#!/bin/sh\nexit 0\n")
        os.chmod(os.path.join(d, f"nx{n}"), 0o644)
        os.makedirs(os.path.join(d, f"dd{n}"), exist_ok=True)
        path = os.path.join(d, "bin", f"k{n}")
        with open(path, "w") as f:
            f.write("#!/bin/sh\n" + (f'printf "%s\\n" "k{n} $*" >> "$C05_LOG"\n' if logging_child else "") + "kill -TERM $$\nsleep 5\n")
        os.chmod(path, 0o755)


def _init_worker():
    global _XSH, _THREADED
    from .session import load_session
    from .tables import ensure_tables

    ensure_tables(completion=False)
    d = common.scratch_dir("c05")
    _mk_unstartable(d)
    os.chdir(d)
    _XSH = load_session(data_dir=d, path=[os.path.join(d, "bin")])
    _THREADED = None
    signal.signal(signal.SIGALRM, _alarm)


def compile_prog(src):
    """-> code object | None when the grammar does not admit the text."""
    _XSH.ctx.clear()
    try:
        return _XSH.execer.compile(src, mode="exec", glbs=_XSH.ctx, locs={}, filename="<c05>")
    except SyntaxError:
        return None


RETRIED = [0]


def execute(code, prog, codes, R, C):
    """Run one compiled program under one code assignment and flag setting on the real implementation.
    A run that does not return within 30 s is repeated (twice at most): only a repeatable hang is reported."""
    for attempt in range(3):
        log, exc = _execute_once(code, prog, codes, R, C)
        if exc is None or exc[0] != "HANG":
            break
        RETRIED[0] += 1
    return log, exc


def _execute_once(code, prog, codes, R, C):
    env = _XSH.env
    env["XONSH_SUBPROC_RAISE_ERROR"] = R
    env["XONSH_SUBPROC_CMD_RAISE_ERROR"] = C
    _XSH.lastcmd = _XSH.last = None
    _XSH.exit = None
    _XSH.ctx.clear()
    CODES.clear()
    CODES.update(codes)
    del LOG[:]
    exc = None
    signal.setitimer(signal.ITIMER_REAL, 30.0)
    try:
        _XSH.execer.exec(code, glbs=_XSH.ctx)
    except subprocess.CalledProcessError as e:
        exc = ("CalledProcessError", e.returncode) if type(e) is subprocess.CalledProcessError else (type(e).__name__, e.returncode)
    except _Hang:
        exc = ("HANG", None)
    except BaseException as e:  # noqa: BLE001 - observed, judged by the oracle
        exc = (type(e).__name__, str(e)[:120])
    finally:
        signal.setitimer(signal.ITIMER_REAL, 0)
    if threading.active_count() > 1:
        for t in threading.enumerate():
            if t is not threading.current_thread():
                t.join(5)
    return _norm_log(prog, list(LOG)), exc


def _norm_log(prog, log):
    """The two stages of one pipeline run concurrently: put their entries into (first, last) order."""
    for i, op in enumerate(prog["ops"]):
        if op["pipe"]:
            nm = ref.names(i, op)
            a, b = ref.entry(nm["first"], op), ref.entry(nm["main"], op)
            for k in range(len(log) - 1):
                if log[k] == b and log[k + 1] == a:
                    log[k], log[k + 1] = a, b
    return log


# ------------------------------------------------------------------------------------------- classification


def _cpl(a, b):
    n = 0
    for x, y in zip(a, b):
        if x != y:
            break
        n += 1
    return n


def _owner(prog, ent):
    for i, op in enumerate(prog["ops"]):
        if ent in ref.operand_entries(i, op):
            return i
    return None


def _signature(prog, codes, R, C, outs, log, exc):
    """-> (clause, flags, signature, deviating operand), relative to the closest acceptable outcome."""
    cmds = tuple(x for x in log if x != "after")
    best = None
    for o in outs:
        n = _cpl([x for x in o[0] if x != "after"], cmds)
        if best is None or n > best[0]:
            best = (n, o)
    j, (elog, eexc, elast, where) = best
    ecmds = tuple(x for x in elog if x != "after")
    rc_flags = f"R{int(R)}C{int(C)}"
    if exc is not None and exc[0] != "CalledProcessError":
        dev = _owner(prog, cmds[-1]) if cmds else 0
        return "exception-class", rc_flags, exc[0], dev if dev is not None else 0
    if where == "cmd" and cmds[: len(ecmds)] == ecmds and (exc is None or len(cmds) > len(ecmds)):
        # the statement wants the raise at this command itself; the implementation went on
        dev = elast
        if prog["ops"][dev]["dec"] == "error_raise":
            return "cmd-raise", rc_flags, "error_raise-ignored", dev
        full = {n: codes.get(n, 0) for n in all_names(prog)}
        others = [i for i in range(len(prog["ops"])) if i != dev]
        sig = "other"
        for r in range(len(others) + 1):
            for sub in itertools.combinations(others, r):
                # exactly what one gets when the CMD flag is not honoured for these operands?
                if ref.accepts(ref.ref_outcomes(prog, full, R, C, cblind=(dev,) + sub), log, exc):
                    sig = "flag-ignored"
                    break
            if sig != "other":
                break
        return "cmd-raise", f"C{int(C)}", sig, dev
    if cmds == ecmds:
        if exc is None and eexc is not None:
            return "chain-raise", rc_flags, "missing", elast
        if exc is not None and eexc is None:
            return "chain-raise", rc_flags, "spurious", elast
        if exc is not None and exc != eexc:
            return "chain-raise", rc_flags, "returncode", elast
        return "fail-fast", rc_flags, "follower-ran" if "after" in log else "follower-skipped", elast
    if j == len(cmds):
        sig = "raised-early" if exc is not None else "stopped-early"
    elif j == len(ecmds):
        sig = "ran-extra"
    else:
        sig = "ran-other"
    ent = cmds[j - 1] if j > 0 else (ecmds[0] if ecmds else (cmds[0] if cmds else None))
    dev = _owner(prog, ent) if ent else 0
    return "short-circuit", rc_flags, sig, dev if dev is not None else 0


def _descr(op, pipe, neg=False):
    kind = op.get("kind", "alias")
    d1 = f"/stage1@{op['dec1']}" if op.get("dec1") and pipe else ""
    return f"{op['form']}/{op['dec'] or '-'}" + ("/pipe" if pipe else "") + d1 + (f"/{kind}" if kind != "alias" else "") + ("/rc<0" if neg else "")


def _has_group(t):
    return not isinstance(t, int) and any(not isinstance(x, int) for x in t[1])


def _rerun(p2, c2, R, C, runner):
    """Run a repaired program; -> None (rejected) | "ok" | its signature tuple."""
    got = runner(p2, c2, R, C)
    if got is None:
        return None
    outs2 = ref.ref_outcomes(p2, {k: c2.get(k, 0) for k in all_names(p2)}, R, C)
    if ref.accepts(outs2, got[0], got[1]):
        return "ok"
    return _signature(p2, c2, R, C, outs2, got[0], got[1])


def make_key(prog, codes, R, C, outs, log, exc, runner=None):
    """Violation key = failure signature + the feature of the input that the failure depends on.  Features are
    established by *repair transforms* (re-running the program with exactly that feature written differently),
    so a different mis-evaluation of the same program family gets a different key."""
    clause, flags, sig, dev = _signature(prog, codes, R, C, outs, log, exc)
    op = prog["ops"][dev]
    forms = {o["form"] for o in prog["ops"]}
    lk = line_kind(prog)
    if runner is not None and _has_group(prog["tree"]) and forms & {"bare", "inj"} and forms & {"out", "obj"}:
        # repair: write every bare operand in its explicit ![...] form (same meaning).  If the failure goes away,
        # the rewrite of bare commands on a line that has a parenthesised group next to $()/!() is at fault.
        p2 = dict(prog, ops=[dict(o, wrap=True) if o["form"] in ("bare", "inj") else dict(o) for o in prog["ops"]])
        s2 = _rerun(p2, codes, R, C, runner)
        if s2 == "ok" or (s2 is not None and s2[:3] != (clause, flags, sig)):
            kind = exc[0] if clause == "exception-class" else "wrong-commands-run"
            return f"bare-rewrite:paren-group+$()/!():{kind}", "a command runs iff short-circuit evaluation reaches it"
    pipe = op["pipe"]
    if pipe and runner is not None:
        # repair: is the pipeline part of the failure?  Replace it by its last stage alone.
        p2 = dict(prog, ops=[dict(o) for o in prog["ops"]])
        p2["ops"][dev]["pipe"] = False
        n = dev + 1
        c2 = {k: v for k, v in codes.items() if k not in (f"p{n}", f"q{n}")}
        c2[f"m{n}"] = codes.get(f"q{n}", 0)
        s2 = _rerun(p2, c2, R, C, runner)
        if s2 not in (None, "ok") and s2[:3] == (clause, flags, sig) and s2[3] == dev and line_kind(p2) == lk:
            pipe = False
    neg = codes.get(ref.names(dev, op)["main"], 0) < 0
    nested = f":nested-in-{prog['stmt']}" if prog["stmt"] in ("list", "call") else ""
    return f"{clause}:{flags}:{sig}:{_descr(op, pipe, neg)}:{lk}{nested}", clause


def _runner(prog, codes, R, C):
    code = compile_prog(ref.render(prog))
    if code is None:
        return None
    return execute(code, prog, codes, R, C)


def _fmt_outs(outs):
    return [{"log": list(o[0]), "exc": list(o[1]) if o[1] else None} for o in outs]


# ------------------------------------------------------------------------------------------- worker


def _eval_item(item):
    bi, n, si, ops, sep = item
    b = _BLOCKS[bi]
    if n not in _SHAPES:
        _SHAPES[n] = shapes(n)
    prog = mkprog(b["stmt"], _SHAPES[n][si], ops, sep)
    res = {"evals": 0, "nontrivial": 0, "rejected": 0, "viols": [], "forks": 0}
    tail = prog["ops"][ref.tail_operand(prog["tree"])]
    if tail["form"] == "obj" and b["stmt"] != "if" and (b["threaded"] or tail["pipe"]):
        # an un-inspected !() of threaded aliases (pipeline stages always are) logs asynchronously: there is no
        # deterministic observation to compare, so these texts are not evaluated (counted in the evidence)
        res["skipped"] = 1
        return res
    _install_aliases(b["threaded"])
    src = ref.render(prog)
    err = io.StringIO()
    with contextlib.redirect_stderr(err), contextlib.redirect_stdout(io.StringIO()):
        code = compile_prog(src)
        if code is None:
            res["rejected"] = 1
            if not _has_group(prog["tree"]) and _ndev(ops, _base_op(b["stmt"], ops[0][2])) == 0:
                # vacuity guard: a flat chain of base-form operands is what the docs show; it must parse
                res["viols"].append(_rejected_violation(prog, src, "exec"))
            return res
        seen = set()
        r0 = RETRIED[0]
        n_entries = sum(len(ref.operand_entries(i, o)) for i, o in enumerate(prog["ops"]))
        for R, C in FLAGS:
            for codes, outs in ref.assignments(prog, R, C, b["codes"]):
                log, exc = execute(code, prog, codes, R, C)
                res["evals"] += 1
                res["forks"] += len(outs) > 1
                o0 = outs[0]
                if o0[1] is not None or len(o0[0]) < n_entries + 1:
                    res["nontrivial"] += 1
                if ref.accepts(outs, log, exc):
                    continue
                key, clause = make_key(prog, codes, R, C, outs, log, exc, _runner)
                if key in seen:
                    continue
                # determinism guard: real children / threaded stages race with the pipeline's own bookkeeping under
                # load (a lost return code once in ~1e6 runs); only a mismatch that repeats twice more is reported
                if any(ref.accepts(outs, *execute(code, prog, codes, R, C)) for _ in range(2)):
                    res["unrepeatable"] = res.get("unrepeatable", 0) + 1
                    continue
                seen.add(key)
                res["viols"].append(
                    {
                        "key": key,
                        "clause": clause,
                        "case": {"seam": "exec", "threaded": b["threaded"], "program": src, "prog": prog, "codes": codes, "flags": [R, C]},
                        "observed": {"log": log, "exc": list(exc) if exc else None},
                        "expected": _fmt_outs(outs),
                        "note": err.getvalue()[-300:],
                    }
                )
    res["retried"] = RETRIED[0] - r0
    return res


def _rejected_violation(prog, src, seam):
    return {
        "key": f"rejected:flat-base-chain:{prog['stmt']}:{prog['ops'][0]['form']}/{prog['ops'][0]['text']}",
        "clause": "documented chain forms are accepted by the grammar",
        "case": {"seam": seam, "threaded": False, "program": src, "prog": prog, "codes": {}, "flags": [True, False], "mode": "c"},
        "observed": "SyntaxError",
        "expected": "parses",
        "note": "",
    }


# ------------------------------------------------------------------------------------------- process level

_PDIR = None
_SITE = None


def _proc_setup():
    """bin/ with real /bin/sh children + a sitecustomize that pins the validated parser table."""
    from .tables import TABDIR

    d = common.scratch_dir("c05p")
    _mk_unstartable(d, logging_child=True)
    for name in [f"m{n}" for n in range(1, MAXN + 1)] + ["after"]:
        path = os.path.join(d, "bin", name)
        with open(path, "w") as f:
            f.write(f'#!/bin/sh\nprintf "%s\\n" "{name} $*" >> "$C05_LOG"\neval "exit \\${{C05_{name}:-0}}"\n')
        os.chmod(path, 0o755)
    os.makedirs(os.path.join(d, "site"))
    with open(os.path.join(d, "site", "sitecustomize.py"), "w") as f:
        f.write(
            "import importlib.util, sys\n"
            f"_s = importlib.util.spec_from_file_location('xonsh.parser_table', {os.path.join(TABDIR, 'parser_table.py')!r})\n"
            "_m = importlib.util.module_from_spec(_s); _s.loader.exec_module(_m); sys.modules['xonsh.parser_table'] = _m\n"
        )
    return d


def run_process(d, tag, mode, body, codes, R, C):
    """-> (log, exit status, stderr tail)."""
    home = os.path.join(d, f"h{tag}")
    os.makedirs(home, exist_ok=True)
    logf = os.path.join(home, "log")
    src = f"$XONSH_SUBPROC_RAISE_ERROR = {R}\n$XONSH_SUBPROC_CMD_RAISE_ERROR = {C}\n" + body
    env = {
        "PATH": os.path.join(d, "bin") + ":/usr/bin:/bin",
        "PYTHONPATH": os.path.join(d, "site") + ":" + common.REPO,
        "PYTHONDONTWRITEBYTECODE": "1",
        "PYTHONHASHSEED": "0",
        "HOME": home,
        "XONSH_DATA_DIR": home,
        "XONSH_CACHE_DIR": home,
        "XONSH_CONFIG_DIR": home,
        "XDG_CONFIG_HOME": home,
        "XDG_DATA_HOME": home,
        "XDG_CACHE_HOME": home,
        "LC_ALL": "C.UTF-8",
        "TERM": "dumb",
        "C05_LOG": logf,
    }
    for k, v in codes.items():
        env[f"C05_{k}"] = str(v)
    argv = [sys.executable, "-B", "-m", "xonsh", "--no-rc"]
    if mode == "c":
        argv += ["-c", src]
    else:
        path = os.path.join(home, "prog.xsh")
        with open(path, "w") as f:
            f.write(src)
        argv += [path]
    try:
        p = subprocess.run(argv, env=env, cwd=home, stdin=subprocess.DEVNULL, capture_output=True, timeout=90)
        status, errtxt = p.returncode, p.stderr.decode("utf-8", "replace")
    except subprocess.TimeoutExpired:
        raise common.ToolError(f"process-level run did not finish within 90 s: {argv[4:]!r}") from None
    log = []
    if os.path.exists(logf):
        with open(logf) as f:
            log = [ln.strip() for ln in f.read().splitlines()]
    return log, status, errtxt[-400:]


def proc_cases(thorough):
    """Chains of real commands (bare, non-Python text) + `exit N` programs, in -c and script mode."""
    cases = []
    # (n operands, operator spellings, flat only, decorators on the first operand, code set, script-mode flag settings)
    if thorough:
        groups = [
            (1, OPS, True, DECS, (0, 1, 2), FLAGS),
            (2, OPS, True, DECS, (0, 1, 2), FLAGS),
            (3, ("&&", "||"), False, ("",), (0, 1), FLAGS),
        ]
    else:
        groups = [(1, OPS, True, ("",), (0, 1), FLAGS[:2]), (2, ("&&", "||"), True, ("",), (0, 1), FLAGS[:2])]
    for n, syms, flat, decs, codeset, script_flags in groups:
        for tree in shapes(n):
            if not isinstance(tree, int):
                if set(tree[2]) - set(syms) or (flat and any(not isinstance(x, int) for x in tree[1])):
                    continue
                if any(not isinstance(x, int) and set(x[2]) - set(syms) for x in tree[1]):
                    continue
            for dec in decs:
                ops = [("bare", dec, "words", False)] + [("bare", "", "words", False)] * (n - 1)
                prog = mkprog("expr", tree, ops, "nl")
                for mode in ("c", "script"):
                    for R, C in FLAGS if mode == "c" else script_flags:
                        for codes, outs in ref.assignments(prog, R, C, codeset):
                            cases.append({"kind": "chain", "mode": mode, "prog": prog, "codes": codes, "flags": [R, C]})
    # a command that cannot be started (missing word) / a real child that dies of SIGTERM, in each position
    kind_flags = FLAGS if thorough else (FLAGS[0], FLAGS[1])
    kind_shapes = [0] + [t for t in shapes(2) if thorough or t[2][0] in ("&&", "||")]
    for tree in kind_shapes:
        n = 1 if isinstance(tree, int) else 2
        for pos in range(n):
            if not thorough and n == 2 and pos != (0 if tree[2][0] == "||" else 1):
                continue  # quick: `X || m2` and `m1 && X`
            for kind in ("missing", "sigp"):
                for dec in DECS if thorough else ("",):
                    ops = [("bare", "", "words", False)] * n
                    ops[pos] = ("bare", dec, "words", False, kind)
                    prog = mkprog("expr", tree, ops, "nl")
                    for mode in ("c", "script") if (thorough and not dec) else ("c",):
                        for R, C in kind_flags:
                            for codes, outs in ref.assignments(prog, R, C, (0, 1)):
                                cases.append({"kind": "chain", "mode": mode, "prog": prog, "codes": codes, "flags": [R, C]})
    exits = [
        ("exit 3\n", {}, [], 3),
        ("exit 0\n", {}, [], 0),
        ("m1 x && exit 3\nafter\n", {"m1": 0}, ["m1 x"], 3),
        ("m1 x || exit 4\nafter\n", {"m1": 1}, ["m1 x"], 4),
        ("m1 x\nexit 5\n", {"m1": 0}, ["m1 x"], 5),
    ]
    if thorough:
        exits += [
            ("m1 x || exit 0\nafter\n", {"m1": 2}, ["m1 x"], 0),
            ("m1 x; exit 7; after\n", {"m1": 0}, ["m1 x"], 7),
            ("if ![m1 x]:\n    exit 6\nafter\n", {"m1": 0}, ["m1 x"], 6),
            ("@error_ignore m1 x\nexit 2\n", {"m1": 1}, ["m1 x"], 2),
        ]
    for body, codes, logprefix, status in exits:
        for mode in ("c", "script"):
            cases.append({"kind": "exit", "mode": mode, "body": body, "codes": codes, "flags": [True, False], "log_prefix": logprefix, "status": status})
    return cases


def _proc_verdict(case, log, status):
    """-> None when acceptable else (key, clause, expected)."""
    R, C = case["flags"]
    if case["kind"] == "exit":
        ok = status == case["status"] and log[: len(case["log_prefix"])] == case["log_prefix"]
        if ok:
            return None
        what = "status" if status != case["status"] else "log"
        return (f"exit-status:exit-N:{what}:{case['body'].splitlines()[0].replace(' ', '_')}", "exit N gives N", {"status": case["status"], "log_prefix": case["log_prefix"]})
    prog, codes = case["prog"], case["codes"]
    outs = ref.ref_outcomes(prog, {k: codes.get(k, 0) for k in all_names(prog)}, R, C)
    same_log = [o for o in outs if o[0] == tuple(log)]
    expected = [{"log": list(o[0]), "status": "non-zero" if o[1] else _ok_status(prog, codes, o)} for o in outs]
    for o in same_log:
        want = "non-zero" if o[1] else _ok_status(prog, codes, o)
        if want == "unchecked" or (want == "non-zero" and status != 0) or (want == 0 and status == 0):
            return None
    if same_log:
        o = same_log[0]
        sig = "raised-but-status-0" if o[1] else "success-but-status-nonzero"
        return (f"exit-status:R{int(R)}C{int(C)}:{sig}:{_descr(prog['ops'][o[2]], False)}", "process exit status", expected)
    exc = None if status == 0 else ("CalledProcessError", None)
    key, clause = make_key(prog, codes, R, C, outs, log, exc, None)
    return (key, clause, expected)


def _ok_status(prog, codes, o):
    """No raise: status 0 is required only if the last command that ran succeeded."""
    op = prog["ops"][o[2]]
    if op.get("kind", "alias") != "alias":
        return "unchecked"
    return 0 if codes.get(ref.names(o[2], op)["main"], 0) == 0 else "unchecked"


def _proc_item(arg):
    idx, case = arg
    body = case["body"] if case["kind"] == "exit" else ref.render(case["prog"])
    with contextlib.redirect_stderr(io.StringIO()):
        admitted = compile_prog(body) is not None
    if not admitted:
        out = {"viol": None, "obs": "rejected by the grammar", "body": body, "rejected": 1}
        if case["kind"] == "exit" or not _has_group(case["prog"]["tree"]):
            out["viol"] = _rejected_violation(case.get("prog") or {"stmt": "exit", "ops": [{"form": "bare", "text": "words"}]}, body, "process")
        return out
    log, status, errtxt = run_process(_PDIR, idx, case["mode"], body, case["codes"], *case["flags"])
    v = _proc_verdict(case, log, status)
    out = {"viol": None, "obs": {"log": log, "status": status}, "body": body}
    if v is not None:
        key, clause, expected = v
        out["viol"] = {
            "key": key,
            "clause": clause,
            "case": dict(case, seam="process", program=body),
            "observed": {"log": log, "status": status},
            "expected": expected,
            "note": errtxt,
        }
    return out


# ------------------------------------------------------------------------------------------- run / replay


# ---------------------------------------------------------------------------- exec-alias histories
# One compound ("exec") alias object is invoked several times in one session; its body runs the command
# m1 or no command at all, depending on its argument.  The exit code that `ea <x> && jK` inspects is the
# code of the LAST COMMAND THE BODY RAN IN THAT INVOCATION (none ran = success): nothing may be carried
# over from an earlier invocation of the same alias.
EA_BODY = "![m1] if $arg0 == 'r' else None"
EA_CODES = (0, 1, 3)


def _ea_histories(maxlen):
    steps = [("n", 0)] + [("r", c) for c in EA_CODES]
    for n in range(1, maxlen + 1):
        yield from itertools.product(steps, repeat=n)


def _ea_item(hist):
    _install_aliases(False)
    _XSH.aliases["ea"] = EA_BODY
    env = _XSH.env
    env["XONSH_SUBPROC_RAISE_ERROR"] = False
    env["XONSH_SUBPROC_CMD_RAISE_ERROR"] = False
    _XSH.ctx.clear()
    obs, exp = [], []
    for i, (arg, code) in enumerate(hist):
        CODES.clear()
        CODES.update({"m1": code})
        del LOG[:]
        exc = None
        signal.setitimer(signal.ITIMER_REAL, 30.0)
        try:
            with contextlib.redirect_stderr(io.StringIO()), contextlib.redirect_stdout(io.StringIO()):
                _XSH.execer.exec(f"ea {arg} && j1\n", glbs=_XSH.ctx)
        except BaseException as e:  # noqa: BLE001
            exc = type(e).__name__
        finally:
            signal.setitimer(signal.ITIMER_REAL, 0)
        obs.append((list(LOG), exc))
        ran = ["m1"] if arg == "r" else []
        exp.append((ran + (["j1"] if (arg == "n" or code == 0) else []), None))
    if obs == exp:
        return None
    k = next(i for i in range(len(hist)) if obs[i] != exp[i])
    prev = "first" if k == 0 else ("after-failed" if hist[k - 1][0] == "r" and hist[k - 1][1] else "after-ok")
    return common.Violation(
        key=f"exec-alias-history:{'no-command' if hist[k][0] == 'n' else 'command'}:{prev}",
        clause="a command runs iff short-circuit evaluation over exit codes reaches it",
        case={"alias": {"ea": EA_BODY}, "history": [f"ea {a} && j1   # m1 returns {c}" for a, c in hist], "flags": [False, False]},
        observed=repr(obs),
        expected=repr(exp),
    ).to_json()


def run(ctx):
    global _BLOCKS, _PDIR
    from .tables import ensure_tables

    ensure_tables(completion=False)
    _BLOCKS = blocks(ctx.thorough)
    items = []
    per_block = {}
    for bi, b in enumerate(_BLOCKS):
        its = block_items(bi, b)
        per_block[b["id"]] = len(its)
        items += its
    ctx.log(f"{len(items)} program texts in {len(_BLOCKS)} blocks: {per_block}")
    res = common.pmap(_eval_item, items, ctx.jobs, chunk=16, init=_init_worker, seed=ctx.seed)
    evals = sum(r["evals"] for r in res)
    nontrivial = sum(r["nontrivial"] for r in res)
    rejected = sum(r["rejected"] for r in res)
    skipped = sum(r.get("skipped", 0) for r in res)
    forks = sum(r["forks"] for r in res)
    retried = sum(r.get("retried", 0) for r in res)
    unrepeatable = sum(r.get("unrepeatable", 0) for r in res)
    for r in res:
        ctx.add_violations(r["viols"])
    ctx.log(f"in-process: {evals} executions, {rejected} texts rejected by the grammar, {sum(len(r['viols']) for r in res)} violating (text,key) pairs")

    _PDIR = _proc_setup()
    pcs = proc_cases(ctx.thorough)
    pres = common.pmap(_proc_item, list(enumerate(pcs)), ctx.jobs, chunk=1, init=_init_worker, seed=ctx.seed)
    for r in pres:
        if r["viol"]:
            ctx.add_violations([r["viol"]])
    prej = sum(r.get("rejected", 0) for r in pres)
    ctx.log(f"process level: {len(pcs) - prej} runs (+{prej} texts rejected by the grammar), {sum(1 for r in pres if r['viol'])} violating")

    for it in common.pick_samples([it for it in items if it[1] >= 2], ctx.seed, 5):
        b = _BLOCKS[it[0]]
        prog = mkprog(b["stmt"], shapes(it[1])[it[2]], it[3], it[4])
        codes, outs = next(iter(ref.assignments(prog, True, False, b["codes"])))
        ctx.sample({"program": ref.render(prog), "codes": codes, "flags": [True, False], "reference": _fmt_outs(outs)})
    for r, c in list(zip(pres, pcs))[:: max(1, len(pcs) // 3)][:3]:
        ctx.sample({"process": c["mode"], "program": r["body"], "codes": c["codes"], "flags": c["flags"], "observed": r["obs"]})
    eah = list(_ea_histories(ctx.pick(3, 4)))
    eres = common.pmap(_ea_item, eah, ctx.jobs, chunk=8, init=_init_worker, seed=ctx.seed)
    ctx.add_violations([v for v in eres if v])
    ctx.log(f"exec-alias histories: {len(eah)} sequences of <= {ctx.pick(3, 4)} invocations of one exec alias, {sum(1 for v in eres if v)} violating")
    ctx.coverage.update(
        exec_alias_histories=len(eah),
        evaluations=evals + len(pcs) - prej + len(eah),
        distinct_nontrivial=nontrivial,
        rule=(
            "every chain tree with <= n operands over && || and or (flat = Python precedence, nested = parenthesised) x every operand "
            "tuple departing from the block's base operand in <= k (operand,dimension) places over form {bare ![ ] $[ ] $( ) !( ) cmd@$( )} / "
            "decorator {-,@error_raise,@error_ignore} / text {name,pyexpr,words,nonpy} / 2-stage pipeline x follower x every exit-code "
            "assignment to the commands the reference can reach x the 4 raise-flag settings, executed in-process; plus real-child "
            "process-level runs (-c and script).  Non-trivial = the reference short-circuits at least one command away or raises.  "
            f"Blocks: {[{k: v for k, v in b.items()} for b in _BLOCKS]}"
        ),
        exhaustive=True,
        program_texts=len(items),
        texts_per_block=per_block,
        rejected_by_grammar=rejected,
        skipped_async_obj=skipped,
        executions_with_forked_reference=forks,
        process_runs=len(pcs) - prej,
        process_texts_rejected_by_grammar=prej,
        runs_repeated_after_30s_timeout=retried,
        mismatches_not_repeatable_hence_not_reported=unrepeatable,
    )
    ctx.assumptions += [
        "callable aliases returning an int stand for commands with that exit status (real /bin/sh children only at process level)",
        "&&/|| follow Python and/or precedence (tutorial: 'xonsh directly translates && into and')",
        "combinations the docs leave open are accepted either way (fork list in xv/c05_ref.py)",
    ]


def replay(rec):
    global _PDIR
    case = rec["case"]
    R, C = case["flags"]
    if rec["key"].startswith("exec-alias-history:"):
        _init_worker()
        hist = [(h.split()[1], int(h.rsplit(" ", 1)[1])) for h in case["history"]]
        v = _ea_item(tuple(hist))
        print("history :", case["history"])
        print("observed:", v["observed"] if v else "as expected", " expected:", rec.get("expected"))
        return 1 if v else 0
    if rec["key"].startswith("rejected:"):
        _init_worker()
        ok = compile_prog(case["program"]) is not None
        print("program :", repr(case["program"]))
        print("observed:", "parses" if ok else "SyntaxError", " expected: parses")
        return 0 if ok else 1
    if case["seam"] == "process":
        _init_worker()
        _PDIR = _proc_setup()
        if "prog" in case:
            case["prog"]["tree"] = _tree_from_json(case["prog"]["tree"])
        out = _proc_item((0, case))
        print("program :", repr(out["body"]), "mode:", case["mode"], "codes:", case["codes"], "flags(RAISE,CMD):", case["flags"])
        print("observed:", out["obs"])
        print("expected:", out["viol"]["expected"] if out["viol"] else "(acceptable)")
        print("key     :", out["viol"]["key"] if out["viol"] else None)
        return 1 if out["viol"] else 0
    _init_worker()
    _install_aliases(case.get("threaded", False))
    prog = case["prog"]
    prog["tree"] = _tree_from_json(prog["tree"])
    src = ref.render(prog)
    if src != case["program"]:
        raise common.ToolError("recorded program text does not match its skeleton")
    codes = case["codes"]
    with contextlib.redirect_stdout(io.StringIO()):
        code = compile_prog(src)
        got = execute(code, prog, codes, R, C) if code is not None else None
    outs = ref.ref_outcomes(prog, {k: codes.get(k, 0) for k in all_names(prog)}, R, C)
    print("program :", repr(src), "codes:", codes, "flags(RAISE,CMD):", [R, C])
    if got is None:
        print("observed: rejected by the grammar")
        return 0
    print("observed:", {"log": got[0], "exc": got[1]})
    for o in _fmt_outs(outs):
        print("expected:", o)
    bad = not ref.accepts(outs, got[0], got[1])
    if bad:
        print("key     :", make_key(prog, codes, R, C, outs, got[0], got[1], _runner)[0])
    return 1 if bad else 0
