/* puppet - a child process that can be single-stepped by the harness.
 *
 *   puppet CTL_FIFO ACK_FIFO
 *
 * It announces itself with "p<pid>\n" on ACK_FIFO and then performs exactly one scripted action per
 * command line read from CTL_FIFO, acknowledging each with "k\n":
 *   w <fd> <hex>   write the bytes given in hex to fd (1 or 2) with one write(2)
 *   c <fd>         close fd
 *   r              read stdin until EOF, then ack with "k<nbytes>\n"
 *   x <code>       exit(code)   (no ack; the harness watches /proc/<pid>/stat for Z)
 * From the scheduler's point of view the child is one more thread whose steps are atomic.
 */
#include <fcntl.h>
#include <signal.h>
#include <stdio.h>
#include <stdlib.h>
#include <string.h>
#include <unistd.h>

static int hexval(int c) {
    if (c >= '0' && c <= '9') return c - '0';
    if (c >= 'a' && c <= 'f') return c - 'a' + 10;
    return 0;
}

int main(int argc, char **argv) {
    if (argc < 3) return 99;
    signal(SIGPIPE, SIG_IGN);
    int ack = open(argv[2], O_WRONLY);
    int ctl = open(argv[1], O_RDONLY);
    if (ack < 0 || ctl < 0) return 98;
    char line[70000];
    char buf[35000];
    int n = snprintf(line, sizeof line, "p%d\n", (int)getpid());
    if (write(ack, line, n) != n) return 97;
    FILE *f = fdopen(ctl, "r");
    while (fgets(line, sizeof line, f)) {
        if (line[0] == 'w') {
            int fd = line[2] - '0';
            char *h = line + 4;
            int len = 0;
            while (h[0] && h[1] && h[0] != '\n') {
                buf[len++] = (char)(hexval(h[0]) * 16 + hexval(h[1]));
                h += 2;
            }
            ssize_t r = write(fd, buf, len);
            n = snprintf(line, sizeof line, "k%d\n", (int)r);
            if (write(ack, line, n) != n) return 96;
        } else if (line[0] == 'c') {
            close(line[2] - '0');
            if (write(ack, "k\n", 2) != 2) return 96;
        } else if (line[0] == 'r') {
            long total = 0;
            ssize_t r;
            while ((r = read(0, buf, sizeof buf)) > 0) total += r;
            n = snprintf(line, sizeof line, "k%ld\n", total);
            if (write(ack, line, n) != n) return 96;
        } else if (line[0] == 'x') {
            _exit(atoi(line + 2));
        }
    }
    return 95; /* control pipe closed: the harness went away */
}
