"""C01 abstract layer: every typed syntax tree under a deviation budget, built from the ASDL
signatures the running interpreter publishes in `ast.<Node>.__doc__`.

The grammar (constructors, field types, `?`/`*` quantifiers) is *read from the ast module*; what
is written by hand here is only (a) the leaf alphabets, (b) which parallel list fields are tied
(Dict keys/values, Compare ops/comparators, arguments defaults, MatchMapping, MatchClass),
(c) the minimal list length of a few fields and (d) the default child of every sort.  Nothing has
to be right for soundness: each tree is rendered with `ast.unparse` and kept only if CPython's
own parser accepts the text; CPython's parse of that text is the expected tree.

Bound (two counters per tree; the root statement / expression constructor is free).  Every slot
has a default child: `expr` -> a fresh one-letter Name (siblings get different letters, so swapped
operands are visible), `stmt` -> `pass` (later slots: a bare name statement), `pattern` -> a literal
value pattern, records (arg, keyword, alias, withitem, comprehension, match_case, handler ...) -> their
minimal shape.  Departing from the default counts as
  a constructor deviation: a different constructor in a sum-type slot (all operator / constant /
      conversion variants of that constructor are alternatives of equal cost), or
  an edit: an optional field present (or a default-present one absent), each list element beyond
      (or below) the field's minimal length, a non-default identifier / dotted name / import level /
      `async` comprehension flag, another type-parameter kind or f-string part.
A budget is a tuple `bud`: a tree with k constructor deviations may carry at most bud[k] edits
(k < len(bud)).  `Enumerator.root_programs(root, bud, reduced)` yields every module within the budget
grown from one root form; with `reduced` only one or two representatives of each operator / constant
family are used (keeps two-deviation trees polynomial).  List fields are at most `maxlen` long."""

from __future__ import annotations

import ast
import re

# ----------------------------------------------------------------------------- ASDL from the docs

_SUM_SORTS = ("mod", "stmt", "expr", "pattern", "type_param", "excepthandler")
_ENUM_SORTS = ("expr_context", "boolop", "operator", "unaryop", "cmpop")
_PRODUCT_SORTS = ("arguments", "arg", "keyword", "alias", "withitem", "match_case", "comprehension")


def _parse_sig(sig):
    m = re.match(r"\s*(\w+)\s*(?:\((.*)\))?\s*$", sig, re.S)
    if not m:
        raise ValueError(f"cannot parse ASDL signature {sig!r}")
    name, body = m.group(1), m.group(2)
    fields = []
    if body and body.strip():
        for part in body.split(","):
            t, n = part.split()
            q = ""
            if t[-1] in "*?":
                q, t = t[-1], t[:-1]
            fields.append((t, q, n))
    return name, fields


def load_asdl():
    """-> (sums: sort -> [ctor names], fields: ctor -> [(type, quant, name)], enums: sort -> [names])"""
    sums, fields, enums = {}, {}, {}
    for sort in _SUM_SORTS:
        doc = getattr(ast, sort).__doc__
        _, rhs = doc.split("=", 1)
        names = []
        for alt in rhs.split("|"):
            n, fs = _parse_sig(alt)
            names.append(n)
            fields[n] = fs
            # the constructor's own docstring must agree (guards against a stale reading)
            own = getattr(ast, n).__doc__
            if own and _parse_sig(own) != (n, fs):
                raise ValueError(f"ASDL mismatch for {n}")
        sums[sort] = names
    for sort in _ENUM_SORTS:
        _, rhs = getattr(ast, sort).__doc__.split("=", 1)
        enums[sort] = [a.strip() for a in rhs.split("|")]
    for sort in _PRODUCT_SORTS:
        n, fs = _parse_sig(getattr(ast, sort).__doc__)
        fields[n] = fs
    return sums, fields, enums


SUMS, FIELDS, ENUMS = load_asdl()

# ----------------------------------------------------------------------------- alphabets

LETTERS = "abcdefghijklmnopqrstuvwxyz"
IDENT_ALTS = ("x", "match", "case", "type", "print", "ls", "_", "é", "in_")
IDENT_ALTS_RED = ("match", "print")
DOTTED_ALTS = ("a.b", "match", "ls.x")
LOAD = ast.Load()

# Constant identity variants: (value, kind)
CONSTS = [
    (1, None), (0, None), (10, None), (2**64, None),
    (1.5, None), (0.5, None), (1e100, None), (1j, None), (1.5j, None),
    ("a", None), ("", None), ("a b", None), ("'", None), ('"', None), ("\\", None), ("{", None),
    ("}", None), ("$", None), ("\n", None), ("é", None), ("a'b\"c", None), ("a", "u"),
    (b"a", None), (b"", None), (b"\\", None), (b"\xff", None), (b"'", None),
    (True, None), (False, None), (None, None), (Ellipsis, None),
]  # fmt: skip
CONSTS_RED = [(1, None), ("a", None), (None, None)]
FSTR_PARTS = ["x", " ", "{", "}", "'", '"', "\\", "\n", "$", "é", ">10", ".2f", ":", "!", "=", "#"]
FSTR_PARTS_RED = ["x", "{"]
CONVERSIONS = [-1, 115, 114, 97]

_RED_ENUM = {
    "boolop": ["And"],
    "operator": ["Add", "Pow"],
    "unaryop": ["Not", "USub"],
    "cmpop": ["Lt", "NotIn"],
}

# minimal list lengths ("*" = any constructor)
_L0 = {
    ("*", "body"): 1, ("Assign", "targets"): 1, ("Delete", "targets"): 1, ("Import", "names"): 1,
    ("ImportFrom", "names"): 1, ("Global", "names"): 1, ("Nonlocal", "names"): 1, ("With", "items"): 1,
    ("AsyncWith", "items"): 1, ("Match", "cases"): 1, ("BoolOp", "values"): 2, ("Compare", "pairs"): 1,
    ("*", "generators"): 1, ("Try", "handlers"): 1, ("TryStar", "handlers"): 1, ("MatchOr", "patterns"): 2,
    ("JoinedStr", "values"): 1, ("MatchSequence", "patterns"): 1,
}  # fmt: skip

# fields never enumerated (fixed value)
_FIXED = {"type_comment": None, "ctx": LOAD, "type_ignores": [], "kind": None}


class Field:
    __slots__ = ("name", "sort", "q", "l0", "present_default")

    def __init__(self, name, sort, q, l0=0, present_default=False):
        self.name, self.sort, self.q, self.l0, self.present_default = name, sort, q, l0, present_default

    def __repr__(self):
        return f"{self.sort}{self.q} {self.name}"


# virtual records for tied parallel lists
_VIRTUAL = {
    "dictitem": [("expr", "?!", "key"), ("expr", "", "value")],  # ?! = optional, present by default
    "cmppair": [("expr", "", "comparator")],  # op is the identity variant
    "argd": [("arg", "", "arg"), ("expr", "?", "default")],
    "mappair": [("litexpr", "", "key"), ("pattern", "", "pattern")],
    "kwdpair": [("identifier", "", "name"), ("pattern", "", "pattern")],
    "fconst": [],  # literal part of an f-string (the text is the identity variant)
}

# (ctor, field) -> replacement field list (ties) or retyped field
_OVERRIDE = {
    ("Dict", "keys"): [("dictitem", "*", "items")],
    ("Dict", "values"): [],
    ("Compare", "ops"): [("cmppair", "*", "pairs")],
    ("Compare", "comparators"): [],
    ("arguments", "posonlyargs"): [("argd", "*", "posonlyargs")],
    ("arguments", "args"): [("argd", "*", "args")],
    ("arguments", "kwonlyargs"): [("argd", "*", "kwonlyargs")],
    ("arguments", "kw_defaults"): [],
    ("arguments", "defaults"): [],
    ("MatchMapping", "keys"): [("mappair", "*", "pairs")],
    ("MatchMapping", "patterns"): [],
    ("MatchClass", "kwd_attrs"): [("kwdpair", "*", "kwds")],
    ("MatchClass", "kwd_patterns"): [],
    ("MatchValue", "value"): [("litexpr", "", "value")],
    ("JoinedStr", "values"): [("fpart", "*", "values")],
    ("FormattedValue", "format_spec"): [("fspec", "?", "format_spec")],
    ("FormattedValue", "conversion"): [],  # identity
    ("Constant", "value"): [],  # identity
    ("MatchSingleton", "value"): [],  # identity
    ("BoolOp", "op"): [], ("BinOp", "op"): [], ("UnaryOp", "op"): [], ("AugAssign", "op"): [],
    ("AnnAssign", "simple"): [],  # identity
    ("ImportFrom", "module"): [("dotted", "?!", "module")],
    ("ImportFrom", "level"): [("level", "", "level")],
    ("alias", "name"): [("dotted", "", "name")],
    ("keyword", "arg"): [("identifier", "?!", "arg")],
    ("comprehension", "is_async"): [("flag", "", "is_async")],
    ("Global", "names"): [("identifier", "*", "names")],
    ("Nonlocal", "names"): [("identifier", "*", "names")],
}  # fmt: skip


def _fields_of(ctor):
    raw = _VIRTUAL[ctor] if ctor in _VIRTUAL else FIELDS[ctor]
    out = []
    for t, q, n in raw:
        if n in _FIXED:
            continue
        repl = _OVERRIDE.get((ctor, n))
        items = repl if repl is not None else [(t, q, n)]
        for t2, q2, n2 in items:
            l0 = _L0.get((ctor, n2), _L0.get(("*", n2), 0))
            out.append(Field(n2, t2, q2.rstrip("!"), l0, q2.endswith("!")))
    return out


# identity variants of a constructor (all of equal cost)
def _identities(ctor, red):
    if ctor == "BoolOp":
        return _RED_ENUM["boolop"] if red else ENUMS["boolop"]
    if ctor in ("BinOp", "AugAssign"):
        return (_RED_ENUM["operator"][:1] if ctor == "AugAssign" else _RED_ENUM["operator"]) if red else ENUMS["operator"]
    if ctor == "UnaryOp":
        return _RED_ENUM["unaryop"] if red else ENUMS["unaryop"]
    if ctor == "cmppair":
        return _RED_ENUM["cmpop"] if red else ENUMS["cmpop"]
    if ctor == "Constant":
        return CONSTS_RED if red else CONSTS
    if ctor == "FormattedValue":
        return CONVERSIONS[:2] if red else CONVERSIONS
    if ctor == "MatchSingleton":
        return [None] if red else [None, True, False]
    if ctor == "AnnAssign":
        return ["auto"] if red else ["auto", 0]
    if ctor == "fconst":
        return FSTR_PARTS_RED if red else FSTR_PARTS
    return [None]


# alternatives of a sum-like sort: list of constructor names (default constructor excluded by caller)
def _alts(sort):
    if sort == "expr":
        return [c for c in SUMS["expr"] if c != "FormattedValue"]
    if sort == "litexpr":
        return [c for c in SUMS["expr"] if c != "FormattedValue"]
    if sort == "stmt":
        return list(SUMS["stmt"])
    if sort in ("pattern", "type_param", "excepthandler"):
        return list(SUMS[sort])
    if sort == "fpart":
        return ["FormattedValue", "fconst"]
    if sort == "fspec":
        return ["JoinedStr"]
    raise KeyError(sort)


_RECORD_SORTS = set(_PRODUCT_SORTS) | set(_VIRTUAL)
_CHEAP_SUM = {"type_param", "fpart"}
_NAMED_SLOTS = {"expr", "litexpr", "identifier", "dotted"}  # slots that consume a default letter


def _letter(i):
    return LETTERS[i % 26]


# ----------------------------------------------------------------------------- node makers


def _mk(ctor, ident, vals):
    """vals: dict field -> value (already ast nodes / python values)."""
    if ctor == "Dict":
        return ast.Dict(keys=[k for k, _ in vals["items"]], values=[v for _, v in vals["items"]])
    if ctor == "dictitem":
        return (vals["key"], vals["value"])
    if ctor == "Compare":
        return ast.Compare(left=vals["left"], ops=[o for o, _ in vals["pairs"]], comparators=[c for _, c in vals["pairs"]])
    if ctor == "cmppair":
        return (getattr(ast, ident)(), vals["comparator"])
    if ctor == "argd":
        return (vals["arg"], vals["default"])
    if ctor == "mappair":
        return (vals["key"], vals["pattern"])
    if ctor == "kwdpair":
        return (vals["name"], vals["pattern"])
    if ctor == "arguments":
        pos = list(vals["posonlyargs"]) + list(vals["args"])
        seen_default = False
        defaults = []
        for _, d in pos:
            if d is not None:
                seen_default = True
                defaults.append(d)
            elif seen_default:
                return None  # non-default after default: not expressible (and not Python)
        return ast.arguments(
            posonlyargs=[a for a, _ in vals["posonlyargs"]],
            args=[a for a, _ in vals["args"]],
            vararg=vals["vararg"],
            kwonlyargs=[a for a, _ in vals["kwonlyargs"]],
            kw_defaults=[d for _, d in vals["kwonlyargs"]],
            kwarg=vals["kwarg"],
            defaults=defaults,
        )
    if ctor == "MatchMapping":
        return ast.MatchMapping(keys=[k for k, _ in vals["pairs"]], patterns=[p for _, p in vals["pairs"]], rest=vals["rest"])
    if ctor == "MatchClass":
        return ast.MatchClass(
            cls=vals["cls"], patterns=list(vals["patterns"]), kwd_attrs=[k for k, _ in vals["kwds"]], kwd_patterns=[p for _, p in vals["kwds"]]
        )
    if ctor == "fconst":
        return ast.Constant(value=ident, kind=None)
    if ctor == "Constant":
        return ast.Constant(value=ident[0], kind=ident[1])
    if ctor == "FormattedValue":
        return ast.FormattedValue(value=vals["value"], conversion=ident, format_spec=vals["format_spec"])
    if ctor == "MatchSingleton":
        return ast.MatchSingleton(value=ident)
    kw = {}
    for k, v in vals.items():
        kw[k] = list(v) if isinstance(v, tuple) else v
    if ctor in ("BoolOp", "BinOp", "UnaryOp", "AugAssign"):
        kw["op"] = getattr(ast, ident)()
    if ctor == "AnnAssign":
        kw["simple"] = (1 if isinstance(kw["target"], ast.Name) else 0) if ident == "auto" else ident
    cls = getattr(ast, ctor)
    for f in cls._fields:
        if f not in kw and f in _FIXED:
            kw[f] = _FIXED[f]
    if issubclass(cls, (ast.stmt, ast.arg)):
        kw["lineno"] = 1  # ast.unparse looks at .lineno of nodes that may carry a type comment
    return cls(**kw)


# ----------------------------------------------------------------------------- the enumerator


class Enumerator:
    def __init__(self, maxlen=3):
        self.maxlen = maxlen
        self._slot_cache = {}
        self._node_cache = {}
        self._fields = {}

    def fields(self, ctor):
        f = self._fields.get(ctor)
        if f is None:
            f = self._fields[ctor] = _fields_of(ctor)
        return f

    # -- defaults -------------------------------------------------------------------------
    def default(self, sort, base, idx):
        """Default (cost 0) child of `sort`; `base` = first free letter, `idx` = index among the
        same-sort slots of the parent (used for stmt / pattern)."""
        if sort == "expr":
            return ast.Name(id=_letter(base), ctx=LOAD)
        if sort == "litexpr":
            return ast.Constant(value=1 + idx, kind=None)
        if sort == "stmt":
            return ast.Pass(lineno=1) if idx == 0 else ast.Expr(value=ast.Name(id=_letter(15 + idx), ctx=LOAD), lineno=1)
        if sort == "pattern":
            return ast.MatchValue(value=ast.Constant(value=1 + idx, kind=None))
        if sort == "identifier" or sort == "dotted":
            return _letter(base)
        if sort == "level":
            return 0
        if sort == "flag":
            return 0
        raise KeyError(sort)

    _DEFAULT_CTOR = {"type_param": "TypeVar", "excepthandler": "ExceptHandler", "fpart": "FormattedValue", "fspec": "JoinedStr"}

    # -- budgets ----------------------------------------------------------------------------
    # A budget is a tuple `bud`: bud[k] = number of shape/leaf edits still allowed if k more
    # constructor deviations are spent (negative / missing = that many deviations not allowed).
    @staticmethod
    def use(bud, dv, ed):
        r = [x - ed for x in bud[dv:]]
        while r and r[-1] < 0:
            r.pop()
        if not r or r[0] < 0:
            return None
        return tuple(r)

    # -- slots ------------------------------------------------------------------------------
    def slot(self, sort, base, idx, bud, red):
        """All fillings of one slot: list of (value, devs, edits)."""
        key = (sort, base, idx, bud, red)
        r = self._slot_cache.get(key)
        if r is not None:
            return r
        out = []
        b_edit = self.use(bud, 0, 1)
        b_dev = self.use(bud, 1, 0)
        if sort in _RECORD_SORTS:
            for ident in _identities(sort, red):
                out += self.node(sort, ident, base, bud, red)
        elif sort in self._DEFAULT_CTOR:
            dc = self._DEFAULT_CTOR[sort]
            for k, ident in enumerate(_identities(dc, red)):
                # first identity of the default constructor is the default; the others are leaf edits
                if k == 0:
                    out += self.node(dc, ident, base, bud, red)
                elif b_edit is not None:
                    out += [(v, dv, ed + 1) for v, dv, ed in self.node(dc, ident, base, b_edit, red)]
            if sort in _CHEAP_SUM:
                # small sum types (type parameters, f-string parts): the other constructors are leaf edits
                if b_edit is not None:
                    for ctor in _alts(sort):
                        if ctor == dc:
                            continue
                        for ident in _identities(ctor, red):
                            out += [(v, dv, ed + 1) for v, dv, ed in self.node(ctor, ident, base, b_edit, red)]
            elif b_dev is not None:
                for ctor in _alts(sort):
                    if ctor == dc:
                        continue
                    for ident in _identities(ctor, red):
                        out += [(v, dv + 1, ed) for v, dv, ed in self.node(ctor, ident, base, b_dev, red)]
        elif sort in ("expr", "litexpr", "stmt", "pattern"):
            out.append((self.default(sort, base, idx), 0, 0))
            if sort == "expr" and b_edit is not None:
                for nm in IDENT_ALTS_RED if red else IDENT_ALTS:
                    out.append((ast.Name(id=nm, ctx=LOAD), 0, 1))
            if b_dev is not None:
                for ctor in _alts(sort):
                    if (sort == "expr" and ctor == "Name") or (sort == "stmt" and ctor == "Pass"):
                        continue
                    for ident in _identities(ctor, red):
                        out += [(v, dv + 1, ed) for v, dv, ed in self.node(ctor, ident, base + 4, b_dev, red)]
                if sort == "stmt":
                    # expression statements: Expr(E) counts as ONE deviation, E from the reduced alphabet
                    for ctor in _alts("expr"):
                        for ident in _identities(ctor, True):
                            for v, dv, ed in self.node(ctor, ident, base + 4, b_dev, True):
                                out.append((ast.Expr(value=v, lineno=1), dv + 1, ed))
        elif sort == "identifier":
            out.append((_letter(base), 0, 0))
            if b_edit is not None:
                out += [(nm, 0, 1) for nm in (IDENT_ALTS_RED if red else IDENT_ALTS)]
        elif sort == "dotted":
            out.append((_letter(base), 0, 0))
            if b_edit is not None:
                out += [(nm, 0, 1) for nm in DOTTED_ALTS]
        elif sort == "level":
            out.append((0, 0, 0))
            if b_edit is not None:
                out += [(n, 0, 1) for n in (1, 2, 3, 4)]
        elif sort == "flag":
            out.append((0, 0, 0))
            if b_edit is not None:
                out.append((1, 0, 1))
        else:
            raise KeyError(sort)
        self._slot_cache[key] = out
        return out

    # -- nodes ------------------------------------------------------------------------------
    def node(self, ctor, ident, base, bud, red):
        """All fillings of the fields of `ctor` (identity variant `ident`) within the budget:
        list of (ast node, devs, edits)."""
        key = (ctor, ident if not isinstance(ident, tuple) else ("c", repr(ident)), type(ident).__name__, base, bud, red)
        r = self._node_cache.get(key)
        if r is not None:
            return r
        fields = self.fields(ctor)
        # positions: every name-bearing slot gets its own letter; list elements get consecutive ones
        plans = []
        letter = base
        idx_of = {}
        for f in fields:
            i0 = idx_of.get(f.sort, 0)
            n = self.maxlen if f.q == "*" else 1
            stride = 3 if f.sort in _RECORD_SORTS else 1
            plans.append((f, letter, i0))
            idx_of[f.sort] = i0 + n
            if f.sort in _NAMED_SLOTS or f.sort in _RECORD_SORTS or f.sort in ("fpart", "type_param", "excepthandler"):
                letter += n * stride
        out = []
        use = self.use

        def rec(i, bb, acc, devs, eds):
            if i == len(plans):
                vals = {f.name: v for (f, _, _), v in zip(plans, acc)}
                n = _mk(ctor, ident, vals)
                if n is not None:
                    out.append((n, devs, eds))
                return
            f, let, i0 = plans[i]
            stride = 3 if f.sort in _RECORD_SORTS else 1
            if f.q == "":
                for v, dv, ed in self.slot(f.sort, let, i0, bb, red):
                    rec(i + 1, use(bb, dv, ed), acc + [v], devs + dv, eds + ed)
            elif f.q == "?":
                b1 = use(bb, 0, 1)
                if f.present_default:
                    for v, dv, ed in self.slot(f.sort, let, i0, bb, red):
                        rec(i + 1, use(bb, dv, ed), acc + [v], devs + dv, eds + ed)
                    if b1 is not None:
                        rec(i + 1, b1, acc + [None], devs, eds + 1)
                else:
                    rec(i + 1, bb, acc + [None], devs, eds)
                    if b1 is not None:
                        for v, dv, ed in self.slot(f.sort, let, i0, b1, red):
                            rec(i + 1, use(b1, dv, ed), acc + [v], devs + dv, eds + 1 + ed)
            else:  # list
                for n in range(0, self.maxlen + 1):
                    c0 = abs(n - f.l0)
                    b0 = use(bb, 0, c0)
                    if b0 is None:
                        continue

                    def elems(j, b2, items, dv2, ed2, n=n, c0=c0):
                        if j == n:
                            rec(i + 1, b2, acc + [tuple(items)], devs + dv2, eds + c0 + ed2)
                            return
                        for v, dv, ed in self.slot(f.sort, let + j * stride, i0 + j, b2, red):
                            elems(j + 1, use(b2, dv, ed), items + [v], dv2 + dv, ed2 + ed)

                    elems(0, b0, [], 0, 0)

        rec(0, bud, [], 0, 0)
        self._node_cache[key] = out
        return out

    # -- roots ------------------------------------------------------------------------------
    def roots(self, red):
        """(kind, ctor, ident) of every free root form; kind 'stmt' or 'expr'."""
        out = []
        for ctor in SUMS["stmt"]:
            if ctor == "Expr":
                continue
            for ident in _identities(ctor, red):
                out.append(("stmt", ctor, ident))
        for ctor in _alts("expr"):
            for ident in _identities(ctor, red):
                out.append(("expr", ctor, ident))
        return out

    def root_programs(self, root, bud, red):
        """Yield (text, is_expr, (devs, edits)) for every program grown from one root form.
        `bud` = tuple: bud[k] = max shape/leaf edits in a tree with k constructor deviations."""
        kind, ctor, ident = root
        bud = tuple(bud)
        if ctor == "Name":
            forms = [(ast.Name(id="a", ctx=LOAD), 0, 0)]
            if bud[0] >= 1:
                forms += [(ast.Name(id=n, ctx=LOAD), 0, 1) for n in (IDENT_ALTS_RED if red else IDENT_ALTS)]
        else:
            forms = self.node(ctor, ident, 0, bud, red)
        for n, dv, ed in forms:
            stmt = ast.Expr(value=n, lineno=1) if kind == "expr" else n
            for extra in range(0, 3):
                if self.use(bud, dv, ed + extra) is None:
                    break
                body = [stmt] + [self.default("stmt", 0, 1 + k) for k in range(extra)]
                try:
                    text = ast.unparse(ast.Module(body=body, type_ignores=[]))
                except Exception:  # noqa: BLE001 - ill-formed tree; not a program
                    continue
                yield text, (kind == "expr" and extra == 0), (dv, ed + extra)
