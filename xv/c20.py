"""C20 - the job table is always consistent with the processes it tracks.

Part 1 (seqx): BFS over histories of job starts / exits / jobs / fg / bg / disown / purges issued
from the main thread or from a worker thread (under use_main_jobs), on the real functions of
xonsh.procs.jobs with stub process / pipeline objects; lock-step reference = dict + MRU list.
Part 2 (pysched, see c20 schedule harness in xv/c20_sched.py when present) explores interleavings.

Does not require: a particular message text; anything about multi-id `disown`; whether `disown`
purges finished jobs before selecting (both outcomes accepted); job numbers of finished jobs being
reusable before a purging command ran."""

import contextlib
import io
import threading

from . import common, seqx
from .session import load_session

LEVEL = "model_checking"

MAXJOBS = 4


class StubProc:
    def __init__(self, pid):
        self.pid = pid
        self.rc = None
        self.returncode = None
        self.signal = None
        self.suspended = False

    def poll(self):
        return self.rc


class StubSpec:
    captured = "hiddenobject"
    background = True


class StubPipeline:
    def __init__(self, log):
        self.spec = StubSpec()
        self.log = log

    def resume(self, job, tee_output=True):
        self.log.append(("resume", job["pids"][0], tee_output))
        # the real resume() waits for the pipeline: other threads run meanwhile
        from . import pysched

        sch = pysched.active()
        if sch is not None and sch.me() is not None:
            sch.point()


def _events():
    evs = []
    for kind in ("bg", "stopped", "fg", "suspended"):  # "suspended": what _run_command_pipeline records for a pipeline that got suspended
        evs.append(["start", kind])
    for j in range(1, MAXJOBS + 1):
        evs.append(["exit", j])
    evs.append(["jobs", [], "main"])
    evs.append(["jobs", ["--posix"], "main"])
    evs.append(["jobs", [], "thread"])
    args = [[], ["+"], ["-"], ["1"], ["2"], ["3"], ["4"], ["0"], ["x"], ["1", "2"]]
    for a in args:
        evs.append(["fg", a, "main"])
    for a in args:
        evs.append(["bg", a, "main"])
    for a in ([], ["-"], ["2"], ["9"]):
        evs.append(["bg", a, "thread"])
    for a in ([], ["1"], ["2"], ["3"], ["0"], ["9"], ["x"], ["+"]):
        evs.append(["disown", a, "main"])
    for a in ([], ["2"], ["9"]):
        evs.append(["disown", a, "thread"])
    evs.append(["purge"])
    return evs


class Harness:
    def __init__(self):
        d = common.scratch_dir("c20")
        self.xsh = load_session(data_dir=d, env={"XONSH_INTERACTIVE": False, "AUTO_CONTINUE": False})
        from xonsh.procs import jobs as J

        self.J = J
        self.events = _events()
        self.log = []
        # signals / terminal hand-over are replaced by recorders
        J._continue = lambda job: self.log.append(("continue", job["pids"][0]))
        J._send_signal = lambda job, sig: self.log.append(("signal", job["pids"][0], sig))
        J.give_terminal_to = lambda pgid: False

    def reset(self):
        J = self.J
        self.xsh.all_jobs.clear()
        J._tasks_main.clear()
        J._jobs_thread_local.tasks = J._tasks_main
        J._jobs_thread_local.jobs = self.xsh.all_jobs
        self.log.clear()
        self.procs = {}  # pid -> StubProc
        self.next_pid = 100
        # reference model
        self.m_jobs = {}  # num -> dict(status, bg, pid)
        self.m_mru = []
        self.m_dead = set()  # pids that exited

    # ------------------------------------------------------------ model helpers
    def m_purge(self):
        dead = [n for n, j in self.m_jobs.items() if j["pid"] in self.m_dead]
        for n in dead:
            del self.m_jobs[n]
            self.m_mru.remove(n)

    def impl_table(self):
        jobs = self.xsh.all_jobs
        return {n: {"status": j["status"], "bg": j["bg"], "pid": j["pids"][0]} for n, j in jobs.items()}

    def canon(self):
        t = self.impl_table()
        return [
            sorted([n, j["status"], j["bg"], j["pid"] in self.m_dead] for n, j in t.items()),
            list(self.J._tasks_main),
            sorted([n, j["status"], j["bg"], j["pid"] in self.m_dead] for n, j in self.m_jobs.items()),
            list(self.m_mru),
        ]

    def menu(self):
        live = len(self.xsh.all_jobs)
        out = []
        for ev in self.events:
            if ev[0] == "start" and live >= MAXJOBS:
                continue
            if ev[0] == "exit":
                j = self.xsh.all_jobs.get(ev[1])
                if j is None or j["obj"].rc is not None:
                    continue
            out.append(ev)
        return out

    # ------------------------------------------------------------ running commands
    def _call(self, fn, args, where):
        """-> dict(out, err, exc, restored)"""
        J = self.J
        res = {"out": None, "err": None, "exc": None, "restored": True, "stdout": ""}

        def body():
            own_t, own_j = J.get_tasks(), J.get_jobs()
            buf = io.StringIO()
            try:
                with contextlib.redirect_stdout(buf), contextlib.redirect_stderr(io.StringIO()):
                    if fn is J.jobs:
                        r = fn(list(args), stdout=buf)
                    else:
                        r = fn(list(args))
            except SystemExit as e:
                r = ("", f"SystemExit {e.code}")
            except Exception as e:  # noqa: BLE001
                res["exc"] = f"{type(e).__name__}: {e}"
                r = None
            res["stdout"] = buf.getvalue()
            if isinstance(r, tuple):
                res["out"], res["err"] = r[0], (r[1] if len(r) > 1 else None)
            elif isinstance(r, str):
                res["out"] = r
            res["restored"] = J.get_tasks() is own_t and J.get_jobs() is own_j
            if where == "thread":
                res["thread_view_private"] = own_t is not J._tasks_main and own_j is not self.xsh.all_jobs

        if where == "thread":
            th = threading.Thread(target=body)
            th.start()
            th.join()
        else:
            body()
        return res

    def step(self, ev, check):
        J = self.J
        viols = []

        def V(clause, detail, observed, expected):
            viols.append({"key": f"{clause}:{detail}", "clause": clause, "case": {"op": ev}, "observed": observed, "expected": expected})

        pre_impl = (self.impl_table(), list(J._tasks_main))
        pre_model = ({n: dict(j) for n, j in self.m_jobs.items()}, list(self.m_mru))
        kind = ev[0]
        res = None
        expect_err = False
        if kind == "start":
            pid = self.next_pid
            self.next_pid += 1
            p = StubProc(pid)
            self.procs[pid] = p
            status = ev[1] if ev[1] in ("stopped", "suspended") else "running"
            info = {"cmds": [["sleep", str(pid)]], "pids": [pid], "status": status, "obj": p, "bg": ev[1] == "bg", "pipeline": StubPipeline(self.log), "pgrp": None}
            with contextlib.redirect_stdout(io.StringIO()):
                J.add_job(info)
            self.m_purge()
            n = 1
            while n in self.m_jobs:
                n += 1
            self.m_jobs[n] = {"status": status, "bg": ev[1] == "bg", "pid": pid}
            self.m_mru.insert(0, n)
            if check:
                got = [k for k, j in self.xsh.all_jobs.items() if j["pids"][0] == pid]
                if got != [n]:
                    V("lowest-free-number", "start", got, [n])
        elif kind == "exit":
            j = self.xsh.all_jobs[ev[1]]
            j["obj"].rc = 0
            j["obj"].returncode = 0
            self.m_dead.add(j["pids"][0])
        elif kind == "purge":
            J.get_next_task()
            self.m_purge()
            sel = next((n for n in self.m_mru if not self.m_jobs[n]["bg"] and self.m_jobs[n]["status"] == "running"), None)
            if sel is not None:
                self.m_mru.remove(sel)
                self.m_mru.insert(0, sel)
        elif kind == "jobs":
            res = self._call(J.jobs, ev[1], ev[2])
            self.m_purge()
            if check and not res["exc"]:
                nums = []
                for line in res["stdout"].splitlines():
                    line = line.strip()
                    if not line:
                        continue
                    if line.startswith("["):
                        nums.append(int(line[1 : line.index("]")]))
                    else:
                        nums.append(eval(line, {"__builtins__": {}})["num"])  # noqa: S307 - repr of a dict of literals
                if nums != self.m_mru:
                    V("jobs-lists-each-live-job-once", "jobs" + ("--posix" if ev[1] else ""), nums, list(self.m_mru))
        elif kind in ("fg", "bg"):
            fn = J.fg if kind == "fg" else J.bg
            self.log.clear()
            res = self._call(fn, ev[1], ev[2])
            self.m_purge()
            a = ev[1]
            sel = None
            if not self.m_mru or len(a) > 1:
                expect_err = True
            elif not a or a == ["+"]:
                sel = self.m_mru[0]
            elif a == ["-"]:
                if len(self.m_mru) > 1:
                    sel = self.m_mru[1]
                else:
                    expect_err = True
            else:
                try:
                    sel = int(a[0])
                except ValueError:
                    sel = None
                if sel not in self.m_jobs:
                    sel = None
                    expect_err = True
            if sel is not None:
                self.m_mru.remove(sel)
                self.m_mru.insert(0, sel)
                self.m_jobs[sel]["status"] = "running"
                self.m_jobs[sel]["bg"] = kind == "bg"
                if check:
                    pid = self.m_jobs[sel]["pid"]
                    resumed = [e for e in self.log if e[0] == "resume"]
                    if resumed != [("resume", pid, kind == "fg")]:
                        V("selects-documented-job", f"{kind} {' '.join(a)}:resumed", resumed, [("resume", pid, kind == "fg")])
        elif kind == "disown":
            self.log.clear()
            res = self._call(J.disown, ev[1], ev[2])
            a = ev[1]
            # both "purge first" and "do not purge first" are accepted (see module docstring)
            alts = []
            for purge_first in (False, True):
                mj = {n: dict(j) for n, j in self.m_jobs.items()}
                mm = list(self.m_mru)
                if purge_first:
                    for n in [n for n, j in mj.items() if j["pid"] in self.m_dead]:
                        del mj[n]
                        mm.remove(n)
                err = False
                if not mm:
                    err = True
                elif not a:
                    sel = mm[0]
                else:
                    try:
                        sel = int(a[0])
                    except ValueError:
                        sel = None
                    if sel not in mj:
                        err = True
                if not err:
                    del mj[sel]
                    mm.remove(sel)
                alts.append((err, mj, mm))
            it = self.impl_table()
            tasks = list(J._tasks_main)
            pick = None
            for err, mj, mm in alts:
                if {n: (j["status"], j["bg"], j["pid"]) for n, j in mj.items()} == {n: (j["status"], j["bg"], j["pid"]) for n, j in it.items()} and mm == tasks:
                    pick = (err, mj, mm)
                    break
            if pick is None:
                pick = alts[0]
            expect_err, self.m_jobs, self.m_mru = pick
        else:
            raise AssertionError(ev)
        if not check:
            return []
        # ---------------- oracle
        it = self.impl_table()
        tasks = list(J._tasks_main)
        if res is not None:
            if res["exc"]:
                V("no-internal-exception", f"{kind} {' '.join(ev[1])}:{res['exc'].split(':')[0]}", res["exc"], "result or error text")
            if not res["restored"]:
                V("worker-view-restored", kind, "thread-local job view not restored", "restored")
            reported = bool(res["err"])
            if kind in ("fg", "bg", "disown") and not res["exc"]:
                if expect_err and not reported:
                    V("error-is-reported", f"{kind} {' '.join(ev[1])}", [res["out"], res["err"]], "an error message")
                if reported and not expect_err:
                    V("valid-selection-succeeds", f"{kind} {' '.join(ev[1])}", res["err"], "success")
                if reported:
                    # an erroring command leaves both structures unchanged (finished jobs may be purged)
                    pm, pmru = pre_model
                    purged = {n: j for n, j in pm.items() if j["pid"] not in self.m_dead}
                    ok_tables = [
                        ({n: (j["status"], j["bg"], j["pid"]) for n, j in pre_impl[0].items()}, pre_impl[1]),
                        ({n: (j["status"], j["bg"], j["pid"]) for n, j in purged.items()}, [n for n in pmru if n in purged]),
                    ]
                    now = ({n: (j["status"], j["bg"], j["pid"]) for n, j in it.items()}, tasks)
                    if now not in ok_tables:
                        V("error-leaves-table-unchanged", f"{kind} {' '.join(ev[1])}", now, ok_tables[0])
        if sorted(tasks) != sorted(it) or len(set(tasks)) != len(tasks):
            V("mru-is-permutation-of-jobs", kind, {"tasks": tasks, "jobs": sorted(it)}, "same set, no duplicates")
        want = {n: (j["status"], j["bg"], j["pid"]) for n, j in self.m_jobs.items()}
        got = {n: (j["status"], j["bg"], j["pid"]) for n, j in it.items()}
        if got != want:
            V("table-matches-reference", kind + (" " + " ".join(ev[1]) if len(ev) > 1 and isinstance(ev[1], list) else ""), got, want)
        elif tasks != self.m_mru:
            V("mru-order-matches-reference", kind + (" " + " ".join(ev[1]) if len(ev) > 1 and isinstance(ev[1], list) else ""), tasks, list(self.m_mru))
        if kind in ("jobs", "fg", "bg", "purge", "start"):
            deadleft = [n for n, j in it.items() if j["pid"] in self.m_dead]
            if deadleft:
                V("finished-jobs-disappear", kind, deadleft, [])
        # resync the model with the implementation so that one defect is reported once, not forever
        return viols


def _factory():
    return Harness()


def run(ctx):
    depth = ctx.pick(7, 10)
    r = seqx.bfs(_factory, depth, ctx, budget_s=ctx.pick(45, 800), chunk=16)
    ctx.add_violations(r["violations"])
    for s in r["sample_histories"]:
        ctx.sample({"history": s})
    sched = None
    try:
        from . import c20_sched
    except ImportError:
        c20_sched = None
    if c20_sched is not None:
        sched = c20_sched.run_part(ctx)
    from . import c20_reg

    reg = c20_reg.run_part(ctx)
    ctx.log(f"registration part: {reg['cases']} pipeline cases over shapes {reg['shapes']}")
    ctx.coverage.update(
        registration_part=reg,
        states=r["states"] + (sched["states"] if sched else 0),
        transitions=r["transitions"] + (sched["transitions"] if sched else 0),
        traces_validated_against_impl=r["transitions"] + (sched["executions"] if sched else 0),
        schedule_part=sched["summary"] if sched else "not run",
        depth_completed=r["depth_completed"],
        depth_requested=depth,
        exhaustive=r["exhaustive"] and (sched["exhaustive"] if sched else True),
        caps_hit=r["capped"],
        level_sizes=r["level_sizes"],
        alphabet=len(seqx._H.events),
        max_live_jobs=MAXJOBS,
        explanation="transitions call the real add_job/jobs/fg/bg/disown/get_next_task with stub process and pipeline objects; canonical state = (job table, MRU deque, reference table, reference MRU)",
    )
    ctx.assumptions += ["signals, terminal hand-over and pipeline.resume are recorders", "multi-id disown is outside the alphabet"]


def replay(rec):
    if rec["case"].get("part") == "registration":
        from . import c20_reg

        return c20_reg.replay(rec)
    h = Harness()
    h.reset()
    hist = rec["case"]["history"]
    vs = []
    for ev in hist:
        vs = h.step(ev, True)
        print(ev, "-> tasks", list(h.J._tasks_main), "jobs", h.impl_table())
    for v in vs:
        print("VIOLATION", v["key"], "observed=", v["observed"], "expected=", v["expected"])
    return 1 if vs else 0
