"""C06 T0: PipeChannel fd ownership under concurrent closers, followed by the "next command".

A pipeline's channels are closed from several threads (proxy / Popen threads via close_writer, the
PrevProcCloser thread and the main thread via _close_prev_procs / _close_proc).  fd numbers are recycled
at once, so a channel that ever hands the same fd number to two closers destroys whatever lives at that
number by then - typically the capture pipe of the *next* `$()`.  The harness runs exactly that shape on
the real PipeChannel with real pipes: a helper thread and the main thread both close (or open-and-write
vs close) one channel, then the main thread creates the next capture pipe, a writer thread writes scripted
chunks into it and the real NonBlockingFDReader reads it.  Oracle: the bytes delivered by the second pipe
are exactly the bytes written to it, what was successfully written into the first channel is what its
read end delivers, and no thread sees an exception.  Every interleaving within the preemption bound."""

import os
import threading

from . import pysched

PROGRAMS = ["close-vs-close", "closewriter-vs-close", "openwriter-vs-close", "close-vs-close-vs-close"]

_PROG = None
_READER = False  # second stage read by the real NonBlockingFDReader thread (thorough) or by the main thread


def _setup():
    import xonsh.procs.pipes as PI
    import xonsh.procs.readers as R

    R.os = pysched.os_read_shim()
    R.queue = pysched.queue_shim()
    R.time = pysched.time_shim()
    PI.threading = pysched.threading_shim()


def _traced():
    import xonsh.procs.pipes as PI
    import xonsh.procs.readers as R

    fs = [f for n, f in vars(PI.PipeChannel).items() if callable(f) and hasattr(f, "__code__") and n not in ("__del__", "from_pty")]
    # the reader side is interleaved at its cooperative os.read / queue operations only (T1 explores it line by line)
    return pysched.codes_of(*fs)


def _body(s):
    import xonsh.procs.pipes as PI
    import xonsh.procs.readers as R

    ch = PI.PipeChannel.from_pipe()
    first_r = ch.read_fd
    wrote_first = []
    helper_err = []

    def closer():
        ch.close()

    def closewriter():
        ch.close_writer()

    def openwriter():
        # what a proxy thread does: open a non-owning wrapper and write through it
        try:
            f = ch.open_writer("wb", buffering=0)
        except OSError as e:
            if "closed" in str(e):
                return  # the documented answer once the end is closed
            raise
        try:
            f.write(b"W")
            wrote_first.append(b"W")
        except OSError:
            pass  # the owner closed the end meanwhile: nothing was written

    helpers = {"close-vs-close": [closer], "closewriter-vs-close": [closewriter], "openwriter-vs-close": [openwriter], "close-vs-close-vs-close": [closer, closer]}[_PROG]
    hts = [threading.Thread(target=h, name=f"helper{i}") for i, h in enumerate(helpers)]
    for t in hts:
        t.start()
    got_first = b""
    if _PROG == "openwriter-vs-close":
        # the owner ends the channel the way _close_prev_procs does: writer first, drain, reader
        ch.close_writer()
        for t in hts:
            t.join()
        while True:
            try:
                b = os.read(first_r, 16)
            except OSError as e:
                helper_err.append("first read end: " + repr(e))
                break
            if not b:
                break
            got_first += b
        ch.close_reader()
    else:
        ch.close()
    # the next command: a fresh capture pipe takes the lowest free fd numbers
    rfd, wfd = os.pipe()
    chunks = [b"one\n", b"two\n"]
    werr = []
    out = bytearray()
    if not _READER:
        # the next command's writer and reader are played by the main thread itself: two threads in all
        try:
            for c in chunks:
                s.point()
                os.write(wfd, c)
            s.point()
            os.close(wfd)
        except OSError as e:
            werr.append(repr(e))
        for t in hts:
            t.join()
        try:
            while True:
                b = os.read(rfd, 1024) if not werr else b""
                if not b:
                    break
                out += b
        except OSError as e:
            werr.append("read: " + repr(e))
    else:

        def writer():
            try:
                for c in chunks:
                    s.point()
                    os.write(wfd, c)
                s.point()
                os.close(wfd)
            except OSError as e:
                werr.append(repr(e))

        wt = threading.Thread(target=writer, name="writer")
        wt.start()
        reader = R.NonBlockingFDReader(rfd, timeout=0.1)
        while not reader.is_fully_read():
            out += reader.read(1024)
        wt.join()
        for t in hts:
            t.join()
        reader.thread.join()
    for fd in (rfd, wfd):
        try:
            os.close(fd)
        except OSError:
            pass
    ch.close()
    return {"second": bytes(out), "writer_errors": werr, "first_written": b"".join(wrote_first), "first_read": got_first, "helper_errors": helper_err}


def _check(r, prefix):
    viols = []

    def V(key, clause, observed, expected):
        viols.append({"key": f"T0:{key}", "clause": clause, "case": {"tier": "T0", "program": _PROG, "reader": _READER}, "observed": observed, "expected": expected})

    if r.outcome or r.error or r.errors:
        V(f"abnormal:{r.outcome or 'exception'}:{_PROG}", "no deadlock / livelock / exception under any schedule", [r.outcome, r.error, r.errors], "normal completion")
        return viols
    v = r.value
    want = b"one\ntwo\n"
    if v["second"] != want or v["writer_errors"]:
        V(f"next-capture-damaged-by-stale-close:{_PROG}", "every byte written is delivered once and in order (a closed channel never touches an fd it no longer owns)", [v["second"].decode("latin1"), v["writer_errors"]], [want.decode("latin1"), []])
    if v["first_read"] != v["first_written"] or v["helper_errors"]:
        V(f"first-channel-bytes:{_PROG}", "what a stage wrote before its channel was closed is delivered", [v["first_read"].decode("latin1"), v["helper_errors"]], [v["first_written"].decode("latin1"), []])
    return viols


def run_part(ctx):
    global _PROG, _READER
    bound = ctx.pick(2, 3)
    _setup()
    traced = _traced()
    total = {"executions": 0, "steps": 0, "sigs": set(), "capped": None}
    per = {}
    runs = [(n, False) for n in PROGRAMS] + ([(n, True) for n in PROGRAMS[:3]] if ctx.thorough else [])
    for name, _READER in runs:
        _PROG = name
        b = 2 if _READER else bound
        viols, st = pysched.explore(_body, _check, traced, b, ctx, setup=_setup, max_execs_per_shard=ctx.pick(20000, 300000), max_steps=5000, budget_s=ctx.pick(30, 150))
        name = name + ("+reader" if _READER else "")
        ctx.add_violations(viols)
        total["executions"] += st.executions
        total["steps"] += st.steps
        total["sigs"] |= st.sigs
        total["capped"] = total["capped"] or st.capped
        per[name] = st.executions
        ctx.log(f"T0 {name}: {st.executions} schedules, {st.steps} steps, max {st.max_choice_points} choice points, {len(viols)} raw violations")
    return {
        "states": len(total["sigs"]),
        "transitions": total["steps"],
        "executions": total["executions"],
        "exhaustive": total["capped"] is None,
        "summary": {"preemption_bound": bound, "schedules_per_program": per, "capped": total["capped"]},
    }


def replay(rec):
    global _PROG, _READER
    _PROG = rec["case"]["program"]
    _READER = rec["case"].get("reader", False)
    _setup()
    r = pysched.run_once(_body, rec["case"].get("schedule", []), _traced(), 5000)
    vs = _check(r, [])
    print("outcome", r.outcome, r.error, r.errors, "value", r.value)
    for v in vs:
        print("VIOLATION", v["key"], v["observed"], v["expected"])
    return 1 if vs else 0
