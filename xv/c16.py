"""C16 - $PWD, the process directory and the directory stack stay in step.

seqx: breadth-first search over histories of the real cd / pushd / popd / dirs aliases on a real
directory tree with symlinks, a file, a dangling link and an unsearchable directory, in a process
that has dropped the DAC capabilities.  Oracle = the clauses of the statement + a reference for
the documented +N/-N selection and rotation rules."""

import contextlib
import io
import os
import shutil

from . import caps, common, seqx
from .session import load_session

LEVEL = "model_checking"

CD_ARGS = [
    [], ["a"], ["a/b"], [".."], ["l"], ["l/.."], ["-"], ["-1"], ["-2"], ["-0"], ["-x"], ["f"], ["missing"],
    ["noexec"], ["a", "c"], ["-P", "l"], ["{R}/c"], ["dead"], ["b"],
]
PUSHD_ARGS = [
    [], ["a"], ["{R}/c"], ["{R}/a/b"], ["+0"], ["+1"], ["+2"], ["-0"], ["-1"], ["+9"], ["+x"], ["missing"],
    ["-n", "{R}/c"], ["-q", "{R}/a"], ["noexec"], ["f"], ["l"],
    ["x1"], ["12"],  # neither a directory nor +N / -N: a character plus digits, bare digits
]
POPD_ARGS = [[], ["+0"], ["+1"], ["-0"], ["-1"], ["+2"], ["+9"], ["-n"], ["+x"], ["-q"], ["1"]]
DIRS_OBS = [[], ["-p"], ["-v"], ["-l"], ["+0"], ["+1"], ["-0"], ["-1"], ["+9"], ["+x"], ["-l", "-p"]]
TOGGLES = [
    ("AUTO_PUSHD", True), ("PUSHD_MINUS", True), ("CDPATH", "a"), ("DIRSTACK_SIZE", 1), ("DIRSTACK_SIZE", 2),
]


def _mk_events(thorough):
    evs = []
    for a in CD_ARGS:
        evs.append(["cd"] + a)
    for a in PUSHD_ARGS:
        evs.append(["pushd"] + a)
    for a in POPD_ARGS:
        evs.append(["popd"] + a)
    evs.append(["dirs", "-c"])
    for k, v in TOGGLES:
        evs.append(["set", k, v])
    evs.append(["fs", "rm", "c"])
    evs.append(["fs", "mk", "c"])
    # the directory changes behind the shell's back (a Python os.chdir in user code); the shell repairs
    # $PWD with BaseShell._fix_cwd() before the next prompt
    for d in ("{R}/c", "{R}/l", "{R}/a/b"):
        evs.append(["extchdir", d])
    # the path-literal context manager `cm = p'<dir>'.cd()` (built_ins.py) is an object the user can
    # build at one point of the session and enter later (and more than once): `with cm: pass` must
    # bring the process back to where the block was ENTERED, whatever happened since `cm` was built
    evs.append(["cmnew", "{R}/a"])
    evs.append(["cmrun"])
    return evs


class Harness:
    def __init__(self, thorough=False):
        self.root = os.path.realpath(common.scratch_dir("c16"))
        self.sroot = os.path.realpath(common.scratch_root())
        self.R = os.path.join(self.root, "R")
        self.events = _mk_events(thorough)
        self.caps_ok = caps.drop_dac_caps()
        self._mk_tree()
        self.caps_ok = self.caps_ok and not os.access(os.path.join(self.R, "noexec"), os.X_OK)
        os.chdir(self.R)
        self.xsh = load_session(data_dir=self.root)
        from xonsh import dirstack

        self.ds = dirstack

    # -------------------------------------------------------------- environment
    def _mk_tree(self):
        R = self.R
        shutil.rmtree(R, ignore_errors=True)
        os.makedirs(os.path.join(R, "a", "b"))
        os.makedirs(os.path.join(R, "c"))
        os.makedirs(os.path.join(R, "h"))
        with open(os.path.join(R, "f"), "w") as f:
            f.write("x")
        os.symlink("a/b", os.path.join(R, "l"))
        os.symlink("missing", os.path.join(R, "dead"))
        os.makedirs(os.path.join(R, "noexec"))
        os.chmod(os.path.join(R, "noexec"), 0o600)

    def reset(self):
        self.cm = None  # (context manager object, directory it was built in)
        c = os.path.join(self.R, "c")
        if not os.path.isdir(c):
            os.makedirs(c)
        os.chdir(self.R)
        self.ds.DIRSTACK = []
        env = self.xsh.env
        env["PWD"] = self.R
        for k in ("OLDPWD",):
            if k in env:
                del env[k]
        env["HOME"] = os.path.join(self.R, "h")
        env["AUTO_PUSHD"] = False
        env["PUSHD_MINUS"] = False
        env["PUSHD_SILENT"] = False
        env["CDPATH"] = []
        env["DIRSTACK_SIZE"] = 20

    def sub(self, args):
        return [a.replace("{R}", self.R) if isinstance(a, str) else a for a in args]

    def rel(self, p):
        if p is None:
            return None
        return p.replace(self.R, "/R").replace(self.root, "/T").replace(self.sroot, "/S")

    # -------------------------------------------------------------- observation
    def snap(self):
        env = self.xsh.env
        try:
            cwd = os.getcwd()
        except OSError:
            cwd = None
        return {
            "cwd": cwd,
            "PWD": env.get("PWD"),
            "OLDPWD": env.get("OLDPWD", None),
            "stack": list(self.ds.DIRSTACK),
        }

    def toggles(self):
        env = self.xsh.env
        return {
            "AUTO_PUSHD": bool(env.get("AUTO_PUSHD")),
            "PUSHD_MINUS": bool(env.get("PUSHD_MINUS")),
            "CDPATH": [self.rel(str(x)) for x in env.get("CDPATH")],
            "DIRSTACK_SIZE": env.get("DIRSTACK_SIZE"),
        }

    def canon(self):
        s = self.snap()
        return [
            self.rel(s["cwd"]),
            self.rel(s["PWD"]),
            self.rel(s["OLDPWD"]),
            [self.rel(x) for x in s["stack"]],
            self.toggles(),
            os.path.isdir(os.path.join(self.R, "c")),
            # where the stored context manager was built: kept apart on purpose, two histories that
            # differ only in this must not be merged (an implementation may have captured it)
            None if self.cm is None else self.rel(self.cm[1]),
        ]

    def menu(self):
        out = []
        s = self.snap()
        c = os.path.join(self.R, "c")
        for ev in self.events:
            if ev[0] == "fs":
                if ev[1] == "rm":
                    if not os.path.isdir(c) or (s["cwd"] or "").startswith(c):
                        continue
                elif os.path.isdir(c):
                    continue
            out.append(ev)
        return out

    def call(self, ev):
        """Run one command the way the alias machinery calls it -> (out, err, rc, stderr text)."""
        name, args = ev[0], self.sub(ev[1:])
        fn = {"cd": self.ds.cd, "pushd": self.ds.pushd, "popd": self.ds.popd, "dirs": self.ds.dirs}[name]
        buf = io.StringIO()
        try:
            with contextlib.redirect_stderr(buf), contextlib.redirect_stdout(io.StringIO()):
                r = fn(list(args))
        except SystemExit as e:
            r = (None, "SystemExit", e.code if isinstance(e.code, int) else 1)
        except Exception as e:  # noqa: BLE001
            return {"out": None, "err": f"{type(e).__name__}: {e}", "rc": "exception", "stderr": buf.getvalue(), "exc": type(e).__name__}
        if r is None:
            r = (None, None, 0)
        out, err, rc = (tuple(r) + (None, None, 0))[:3] if isinstance(r, tuple) else (r, None, 0)
        if len(r) == 2:
            out, err, rc = r[0], r[1], 0
        return {"out": out, "err": err, "rc": rc, "stderr": buf.getvalue(), "exc": None}

    # -------------------------------------------------------------- reference (documented behaviour)
    def _isdir_from(self, cwd, d):
        return os.path.isdir(os.path.join(cwd, d))

    def _targets(self, pre, d, physical=False):
        """The directory `d` may denote: logical (relative to $PWD, lexically normalised) or
        physical (relative to the process directory)."""
        c = set()
        for base in (pre["PWD"], pre["cwd"]):
            p = os.path.abspath(os.path.join(base, d)) if base == pre["PWD"] else os.path.join(base, d)
            if os.path.isdir(p):
                c.add(os.path.realpath(p))
        return c

    def _enterable(self, path):
        return os.path.isdir(path) and os.access(path, os.X_OK)

    def _idx(self, arg, n_listing, minus):
        """Listing index selected by +N/-N, or 'bad' / 'range'."""
        if not arg or arg[0] not in "+-":
            return "bad"
        try:
            n = int(arg[1:])
        except ValueError:
            return "bad"
        if n < 0:
            return "bad"
        if n >= n_listing:
            return "range"
        from_left = (arg[0] == "+") != minus
        return n if from_left else n_listing - 1 - n

    def expect(self, pre, tog, ev):
        """-> ('fail', reason) | ('ok', {'cwd': set(realpaths)|None(unchanged), 'stack': [...]|None,
        'alt_stack': [...], 'changed': bool})"""
        name, args = ev[0], self.sub(ev[1:])
        L = [pre["PWD"]] + pre["stack"]
        size = tog["DIRSTACK_SIZE"]
        minus = tog["PUSHD_MINUS"]
        if name == "cd":
            args = list(args)
            phys = False
            if args and args[0] == "-P":
                phys = True
                args.pop(0)
            if len(args) > 1:
                return ("fail", "too-many-args")
            if not args:
                tgt = self.xsh.env.get("HOME")
            else:
                d = args[0]
                if self._isdir_from(pre["cwd"], d):
                    tgt = d
                elif d == "-":
                    if pre["OLDPWD"] is None:
                        return ("fail", "no-oldpwd")
                    tgt = pre["OLDPWD"]
                elif d.startswith("-"):
                    try:
                        n = int(d[1:])
                    except ValueError:
                        return ("fail", "malformed")
                    if n < 0:
                        return ("fail", "malformed")
                    if n == 0:
                        return ("ok", {"cwd": None, "stack": pre["stack"], "changed": False})
                    if n > len(pre["stack"]):
                        return ("fail", "out-of-range")
                    tgt = pre["stack"][n - 1]
                else:
                    tgt = d
                    for cdp in self.xsh.env.get("CDPATH"):
                        if os.path.exists(os.path.join(str(cdp), d)):
                            tgt = os.path.join(str(cdp), d)
                            break
            cands = self._targets(pre, tgt)
            full = os.path.join(pre["cwd"], tgt)
            if not os.path.exists(full):
                return ("fail", "nonexistent")
            if not os.path.isdir(full):
                return ("fail", "not-a-directory")
            if not os.access(full, os.X_OK):
                return ("fail", "unreadable")
            if phys:
                cands = {os.path.realpath(full)}
            stack = pre["stack"]
            if tog["AUTO_PUSHD"]:
                stack = ([pre["PWD"]] + stack)[:size]
            return ("ok", {"cwd": cands, "stack": stack, "changed": True})
        if name == "pushd":
            args = [a for a in args if a != "-q"]
            nocd = "-n" in args
            args = [a for a in args if a != "-n"]
            if not args:
                if not pre["stack"]:
                    return ("fail", "empty-stack")
                tgt = pre["stack"][0]
                if not self._enterable(os.path.join(pre["PWD"], tgt)):
                    return ("fail", "cannot-chdir")
                return ("ok", {"cwd": self._targets(pre, tgt), "stack": ([pre["PWD"]] + pre["stack"][1:])[:size], "changed": True})
            d = args[0]
            if self._isdir_from(pre["cwd"], d):
                if nocd:
                    return ("ok", {"cwd": None, "stack": ([d] + pre["stack"])[:size], "changed": False})
                if not self._enterable(os.path.join(pre["cwd"], d)):
                    return ("fail", "cannot-chdir")
                return ("ok", {"cwd": self._targets(pre, d), "stack": ([pre["PWD"]] + pre["stack"])[:size], "changed": True})
            i = self._idx(d, len(L), minus)
            if i == "bad":
                return ("fail", "malformed-or-not-a-directory")
            if i == "range":
                return ("fail", "out-of-range")
            if i == 0:
                return ("ok", {"cwd": None, "stack": pre["stack"][:size], "changed": False})
            if not self._enterable(os.path.join(pre["PWD"], L[i])):
                return ("fail", "cannot-chdir")
            rot = L[i:] + L[:i]  # "by rotating the stack"
            mtf = [L[i], L[0]] + [x for j, x in enumerate(L) if j not in (0, i)]
            return ("ok", {"cwd": self._targets(pre, L[i]), "stack": rot[1:][:size], "alt_stack": mtf[1:][:size], "changed": True})
        if name == "popd":
            args = [a for a in args if a != "-q"]
            nocd = "-n" in args
            args = [a for a in args if a != "-n"]
            if not args:
                i = 0
                if not pre["stack"]:
                    return ("fail", "empty-stack")
            else:
                if not pre["stack"]:
                    # nothing to remove whatever N is
                    j = self._idx(args[0], len(L), minus)
                    return ("fail", "malformed" if j == "bad" else "empty-stack")
                i = self._idx(args[0], len(L), minus)
                if i == "bad":
                    return ("fail", "malformed")
                if i == "range":
                    return ("fail", "out-of-range")
            if i == 0:
                if nocd:
                    return ("ok", {"cwd": None, "stack": pre["stack"][1:], "changed": False})
                tgt = pre["stack"][0]
                if not self._enterable(os.path.join(pre["PWD"], tgt)):
                    return ("fail", "cannot-chdir")
                return ("ok", {"cwd": self._targets(pre, tgt), "stack": pre["stack"][1:], "changed": True})
            st = list(pre["stack"])
            st.pop(i - 1)
            return ("ok", {"cwd": None, "stack": st, "changed": False})
        if name == "dirs":
            return ("ok", {"cwd": None, "stack": [], "changed": False})
        raise AssertionError(ev)

    # -------------------------------------------------------------- transition
    def step(self, ev, check):
        if ev[0] == "set":
            v = ev[2]
            if ev[1] == "CDPATH":
                v = [os.path.join(self.R, v)]
            self.xsh.env[ev[1]] = v
            return []
        if ev[0] == "fs":
            c = os.path.join(self.R, "c")
            if ev[1] == "rm":
                os.rmdir(c)
            else:
                os.makedirs(c)
            return []
        if ev[0] == "cmnew":
            from xonsh.built_ins import XonshPathLiteral

            self.cm = (XonshPathLiteral(self.sub([ev[1]])[0]).cd(), os.getcwd())
            return []
        if ev[0] == "cmrun":
            if self.cm is None:
                return []
            pre = self.snap()
            inside = None
            try:
                with self.cm[0] as _p:
                    inside = os.getcwd()
            except Exception as e:  # noqa: BLE001
                inside = f"{type(e).__name__}: {e}"
            if not check:
                return []
            post = self.snap()
            viols = []
            case = {"op": ev, "pre": self._relsnap(pre), "cm_built_in": self.rel(self.cm[1]), "cm_target": self.rel(str(self.cm[0].path))}
            if inside != os.path.realpath(str(self.cm[0].path)) and inside != str(self.cm[0].path):
                viols.append({"key": "path-literal-cd:block-runs-in-target", "clause": "pwd-names-cwd", "case": case, "observed": self.rel(inside), "expected": self.rel(str(self.cm[0].path))})
            if post["cwd"] != pre["cwd"]:
                viols.append({"key": "path-literal-cd:restores-directory-of-entry", "clause": "pwd-names-cwd", "case": case, "observed": self.rel(post["cwd"]), "expected": self.rel(pre["cwd"])})
            if (post["PWD"], post["OLDPWD"], post["stack"]) != (pre["PWD"], pre["OLDPWD"], pre["stack"]):
                viols.append({"key": "path-literal-cd:shell-record-untouched", "clause": "pwd-names-cwd", "case": case, "observed": self._relsnap(post), "expected": self._relsnap(pre)})
            return viols
        if ev[0] == "extchdir":
            from xonsh.shells.base_shell import BaseShell

            pre = self.snap()
            d = self.sub([ev[1]])[0]
            if not (os.path.isdir(d) and os.access(d, os.X_OK)):
                return []
            os.chdir(d)
            BaseShell._fix_cwd(_DummyShell())
            if not check:
                return []
            post = self.snap()
            viols = []
            same = post["cwd"] is not None and post["PWD"] is not None and os.path.samefile(post["PWD"], post["cwd"])
            if not same:
                viols.append({"key": "pwd-names-cwd:extchdir+fix_cwd", "clause": "pwd-names-cwd", "case": {"op": ev, "pre": self._relsnap(pre)}, "observed": self._relsnap(post), "expected": "samefile($PWD, os.getcwd())"})
            moved = not os.path.samefile(pre["cwd"], post["cwd"])
            if moved and post["OLDPWD"] != pre["PWD"]:
                viols.append({"key": "oldpwd-is-previous-pwd:extchdir+fix_cwd", "clause": "oldpwd-is-previous-pwd", "case": {"op": ev, "pre": self._relsnap(pre)}, "observed": self.rel(post["OLDPWD"]), "expected": self.rel(pre["PWD"])})
            if post["stack"] != pre["stack"]:
                viols.append({"key": "stack-untouched:extchdir+fix_cwd", "clause": "stack-follows-documented-rules", "case": {"op": ev}, "observed": post["stack"], "expected": pre["stack"]})
            return viols
        if not check:
            self.call(ev)
            return []
        pre = self.snap()
        tog = self.toggles()
        exp = self.expect(pre, tog, ev)
        res = self.call(ev)
        post = self.snap()
        return self.judge(ev, pre, tog, exp, res, post)

    def judge(self, ev, pre, tog, exp, res, post):
        viols = []
        name = ev[0]
        opsig = " ".join(str(x) for x in ev)

        def V(clause, detail, observed, expected):
            viols.append(
                {
                    "key": f"{clause}:{name}:{detail}",
                    "clause": clause,
                    "case": {"op": ev, "pre": self._relsnap(pre), "toggles": tog},
                    "observed": observed,
                    "expected": expected,
                    "note": f"result={ {k: (self.rel(v) if isinstance(v, str) else v) for k, v in res.items()} }",
                }
            )

        if res["exc"]:
            V("no-internal-exception", f"{res['exc']}:{opsig}", res["err"], "error tuple or success")
            return viols
        # A. $PWD names the process's working directory
        ok_same = False
        try:
            ok_same = post["cwd"] is not None and post["PWD"] is not None and os.path.samefile(post["PWD"], post["cwd"])
        except OSError:
            ok_same = False
        if not ok_same:
            V("pwd-names-cwd", opsig, self._relsnap(post), "samefile($PWD, os.getcwd())")
        failed = (res["rc"] not in (0, None)) or bool(res["err"]) or bool(res["stderr"].strip())
        core = lambda s: (s["cwd"], s["PWD"], s["OLDPWD"], s["stack"])  # noqa: E731
        if failed:
            if core(post) != core(pre):
                changed = [k for k in ("cwd", "PWD", "OLDPWD", "stack") if post[k] != pre[k]]
                V("failed-op-changes-nothing", f"{exp[1] if exp[0] == 'fail' else 'unexpected-failure'}:{'+'.join(changed)}", self._relsnap(post), self._relsnap(pre))
            if not (res["rc"] not in (0, None)):
                V("failure-is-reported", f"rc0-with-error-text:{exp[1] if exp[0] == 'fail' else 'x'}", res["rc"], "non-zero return code")
            if exp[0] == "ok":
                V("valid-op-succeeds", opsig, [res["rc"], res["err"], res["stderr"]], "success")
            return viols
        # reported success
        if exp[0] == "fail":
            V("failure-is-reported", f"{exp[1]}:{'state-changed' if core(post) != core(pre) else 'state-kept'}", self._relsnap(post), f"an error ({exp[1]})")
            return viols
        e = exp[1]
        if e["cwd"] is None:
            if post["cwd"] != pre["cwd"] or post["PWD"] != pre["PWD"]:
                V("selects-documented-directory", f"should-not-move:{opsig}", self._relsnap(post), "directory unchanged")
        else:
            if post["cwd"] is None or os.path.realpath(post["cwd"]) not in e["cwd"]:
                V("selects-documented-directory", opsig, self.rel(post["cwd"]), sorted(self.rel(x) for x in e["cwd"]))
        if e["changed"]:
            if post["OLDPWD"] != pre["PWD"]:
                V("oldpwd-is-previous-pwd", name, self.rel(post["OLDPWD"]), self.rel(pre["PWD"]))
        elif post["OLDPWD"] != pre["OLDPWD"]:
            V("oldpwd-is-previous-pwd", f"{name}:changed-without-move", self.rel(post["OLDPWD"]), self.rel(pre["OLDPWD"]))
        if name != "dirs" or ev[1:] == ["-c"]:
            want = list(e["stack"]) if name != "dirs" else []
            got = post["stack"]
            if [os.path.normpath(x) for x in got] != [os.path.normpath(x) for x in want]:
                if "alt_stack" in e and got == e["alt_stack"]:
                    V("stack-rotation-order", "pushd+N:move-to-front-instead-of-rotation", [self.rel(x) for x in got], [self.rel(x) for x in want])
                else:
                    V("stack-follows-documented-rules", opsig, [self.rel(x) for x in got], [self.rel(x) for x in want])
        if (name == "pushd" or (name == "cd" and tog["AUTO_PUSHD"] and e["changed"])) and len(post["stack"]) > tog["DIRSTACK_SIZE"]:
            V("stack-size-bound", name, len(post["stack"]), f"<= {tog['DIRSTACK_SIZE']}")
        return viols

    def _relsnap(self, s):
        return {"cwd": self.rel(s["cwd"]), "PWD": self.rel(s["PWD"]), "OLDPWD": self.rel(s["OLDPWD"]), "stack": [self.rel(x) for x in s["stack"]]}

    # -------------------------------------------------------------- per-state observers
    def observe(self):
        viols = []
        pre = self.snap()
        tog = self.toggles()
        L = [pre["PWD"]] + pre["stack"]

        def V(clause, detail, observed, expected, op):
            viols.append({"key": f"{clause}:{detail}", "clause": clause, "case": {"op": op, "pre": self._relsnap(pre), "toggles": tog}, "observed": observed, "expected": expected})

        # the shell runs BaseShell._fix_cwd() after every command: where $PWD already names the working
        # directory (logically - it may contain a symlink) the repair has nothing to repair
        try:
            consistent = pre["cwd"] is not None and pre["PWD"] is not None and os.path.samefile(pre["PWD"], pre["cwd"])
        except OSError:
            consistent = False
        if consistent:
            from xonsh.shells.base_shell import BaseShell

            BaseShell._fix_cwd(_DummyShell())
            post = self.snap()
            if post != pre:
                changed = [k for k in ("cwd", "PWD", "OLDPWD", "stack") if post[k] != pre[k]]
                V("prompt-repair-is-noop-when-pwd-names-cwd", "+".join(changed), self._relsnap(post), self._relsnap(pre), ["_fix_cwd"])
                env = self.xsh.env
                env["PWD"] = pre["PWD"]
                if pre["OLDPWD"] is None:
                    env.pop("OLDPWD", None)
                else:
                    env["OLDPWD"] = pre["OLDPWD"]
                self.ds.DIRSTACK = list(pre["stack"])
                os.chdir(pre["cwd"])
        # dirs never changes anything and prints the listing [PWD]+stack
        for a in DIRS_OBS:
            res = self.call(["dirs"] + a)
            post = self.snap()
            if post != pre:
                V("dirs-is-read-only", " ".join(a), self._relsnap(post), self._relsnap(pre), ["dirs"] + a)
                self.ds.DIRSTACK = list(pre["stack"])
            if res["exc"]:
                V("no-internal-exception", f"dirs {' '.join(a)}:{res['exc']}", res["err"], "listing or error", ["dirs"] + a)
                continue
            if a == ["-l", "-p"] and (res["out"] or "").rstrip("\n").split("\n") != L:
                V("dirs-lists-pwd-then-stack", "-l -p", res["out"], L, ["dirs"] + a)
            if a and a[0][0] in "+-" and a[0][1:].isdigit():
                i = self._idx(a[0], len(L), tog["PUSHD_MINUS"])
                home = os.path.expanduser("~")
                if i == "range":
                    if res["rc"] in (0, None):
                        V("failure-is-reported", f"dirs {a[0]}:out-of-range", res["out"], "error")
                elif (res["out"] or "").rstrip("\n") != L[i].replace(home, "~"):
                    V("selects-documented-directory", f"dirs {a[0]}", res["out"], L[i], ["dirs"] + a)
        # pushd d ; popd is the identity on (directory, stack) when the stack has room
        if len(pre["stack"]) < tog["DIRSTACK_SIZE"]:
            for d in ("a", "{R}/c", "l"):
                dd = d.replace("{R}", self.R)
                if not self._enterable(os.path.join(pre["cwd"], dd)):
                    continue
                r1 = self.call(["pushd", dd])
                r2 = self.call(["popd"])
                post = self.snap()
                same = post["stack"] == pre["stack"] and post["PWD"] == pre["PWD"] and post["cwd"] is not None and os.path.samefile(post["cwd"], pre["cwd"])
                if not same:
                    V("pushd-popd-identity", d, self._relsnap(post), self._relsnap(pre), [["pushd", d], ["popd"]])
                # restore exactly
                self.ds.DIRSTACK = list(pre["stack"])
                os.chdir(pre["cwd"])
                self.xsh.env["PWD"] = pre["PWD"]
                if pre["OLDPWD"] is None:
                    if "OLDPWD" in self.xsh.env:
                        del self.xsh.env["OLDPWD"]
                else:
                    self.xsh.env["OLDPWD"] = pre["OLDPWD"]
        return viols


class _DummyShell:
    def print_color(self, *a, **k):
        pass


_THOROUGH = False


def _factory():
    return Harness(_THOROUGH)


def run(ctx):
    global _THOROUGH
    _THOROUGH = ctx.thorough
    depth = ctx.pick(4, 6)
    r = seqx.bfs(_factory, depth, ctx, budget_s=ctx.pick(60, 1500), chunk=4)
    ctx.add_violations(r["violations"])
    h = seqx._H
    if not h.caps_ok:
        ctx.assumptions.append("capset refused: the 'noexec' directory does not refuse chdir in this run")
    for s in r["sample_histories"]:
        ctx.sample({"history": s})
    ctx.coverage.update(
        states=r["states"],
        transitions=r["transitions"],
        traces_validated_against_impl=r["transitions"],
        depth_completed=r["depth_completed"],
        depth_requested=depth,
        exhaustive=r["exhaustive"],
        caps_hit=r["capped"],
        level_sizes=r["level_sizes"],
        alphabet=len(h.events),
        observers_per_state=len(DIRS_OBS) + 3,
        explanation="every transition is an execution of the real cd/pushd/popd/dirs aliases on a real directory tree; states are canonical (cwd, $PWD, $OLDPWD, stack, toggles, fs-fault) tuples",
        permission_bits_bind=h.caps_ok,
    )
    ctx.assumptions += [
        "directory arguments given to `pushd -n` are absolute (relative entries in the stack are outside the statement)",
        "`cd d` may resolve d logically (relative to $PWD) or physically (relative to the process directory); either is accepted",
    ]


def replay(rec):
    h = Harness(True)
    h.reset()
    hist = rec["case"].get("history") or []
    for ev in hist[:-1]:
        h.step(ev, False)
    print("state before:", h._relsnap(h.snap()), h.toggles())
    if "op" in rec["case"] and isinstance(rec["case"]["op"][0], str) and hist and hist[-1] == rec["case"]["op"]:
        vs = h.step(hist[-1], True)
    else:
        if hist:
            h.step(hist[-1], False)
        vs = h.observe()
    print("state after :", h._relsnap(h.snap()))
    for v in vs:
        print("VIOLATION", v["key"], "observed=", v["observed"], "expected=", v["expected"])
    return 1 if vs else 0
