"""C06 T2: the real capture path with threaded callable-alias stages under the controlled scheduler.

`$(A)`, `!(A)`, `$(A | B)` are executed through the real subproc_captured_* entry points: cmds_to_specs,
CommandPipeline.__init__/iterraw/tee_stdout/end/_close_prev_procs, ProcProxyThread.run/wait,
NonBlockingFDReader/populate_fd_queue and PipeChannel all run for real; the aliases write scripted
chunks (with a scheduling point before each write) and return a scripted code."""

import signal

from . import common, pysched
from .session import load_session

SHAPES = {
    # name: (kind, stages) ; stage = (chunks, rc)
    "$(A)-one-line": ("stdout", [([b"hello\n"], 0)]),
    "$(A)-two-chunks": ("stdout", [([b"a\n", b"b"], 0)]),
    "$(A)-empty": ("stdout", [([], 0)]),
    "$(A)-rc3": ("stdout", [([b"x\ny\n"], 3)]),
    "!(A)-two-chunks": ("object", [([b"a\n", b"b\n"], 2)]),
    "!(A)-1025": ("object", [([b"z" * 1025], 0)]),
    "$(A|B)": ("stdout", [([b"a\n", b"b\n"], 0), ("pass", 0)]),
    "!(A|B)-early": ("object", [([b"a\n", b"b\n", b"c\n"], 0), ("head1", 4)]),
    # two commands back to back: helper threads of the first may still be closing their pipe ends
    # while the second creates its pipes (fd numbers are recycled at once)
    "$(A);$(A)": ("stdout2", [([b"one\n"], 0)]),
    # a two-stage alias pipeline, then a capture: whatever the two stage threads leave behind in the
    # process-global sys.stdout / sys.stderr meets the next command's alias thread
    "$(A|B);$(A)": ("pipe-then-capture", [([b"a\n"], 0), ("pass", 0)]),
    "$(A|B);$(A);$(A)": ("pipe-then-capture2", [([b"a\n"], 0), ("pass", 0)]),
    # an alias that closes the stdout it was given (`with stdout:` is enough), or hands its output back
    # as the return value
    "$(A)-closes-stdout": ("stdout", [([b"hello\n", "close"], 0)]),
    "!(A)-closes-stdout-rc3": ("object", [([b"x\ny\n", "close"], 3)]),
    "$(A)-returns-str": ("stdout", [([b"a\n", ("return", "ret\n")], 0)]),
    # an alias that silences a library with contextlib.redirect_stdout while its neighbour starts: the
    # temporary stream must not end up as "the session's stream"
    "$(S|B);$(A)": ("pipe-then-capture", [([("silence", 2), b"a\n"], 0), ("pass", 0)]),
    # a non-final alias that leaves its output in the stream wrapper (no flush of its own): xonsh's final
    # flush must happen before anybody may consider the stage finished
    "$(L|B)": ("stdout", [(["noflush", b"a\n", b"b\n"], 0), ("pass", 0)]),
    # the first stage leaves through SystemExit while the second is still printing through sys.stdout
    # (print(), not the `stdout` argument): the redirection of a stage that is still running stays
    "$(X|P)": ("stdout", [([b"a\n", b"b\n", "sysexit"], 0), ("pass-print", 0)]),
    # the non-blocking view is looked at while the command runs, the blocking views afterwards
    "!(A)-peek-then-views": ("objectpeek", [([b"a\n", b"b\n"], 2)]),
    # several views of ONE pipeline object in a row: iterate its lines first, then ask for the rest
    "!(A)-iterate-then-views": ("objectiter", [([b"a\n", b"b\n"], 2)]),
}
QUICK = ["$(A)-two-chunks", "$(A);$(A)", "$(A)-closes-stdout", "!(A)-iterate-then-views", "$(S|B);$(A)", "$(X|P)", "!(A)-peek-then-views"]  # "$(S|B);$(A)" extends "$(A|B);$(A)" (thorough)  # "$(A|B)" is a prefix of the last one

_SHAPE = None
_XSH = None


def _setup():
    global _XSH
    import xonsh.procs.pipelines as P
    import xonsh.procs.pipes as PI
    import xonsh.procs.proxies as X
    import xonsh.procs.readers as R

    d = common.scratch_dir("c06t2")
    _XSH = load_session(data_dir=d, env={"XONSH_PROC_FREQUENCY": 1e-4, "THREAD_SUBPROCS": True, "XONSH_SUBPROC_RAISE_ERROR": False, "XONSH_SUBPROC_CMD_RAISE_ERROR": False})
    R.os = pysched.os_read_shim()
    R.queue = pysched.queue_shim()
    R.time = pysched.time_shim()
    P.time = pysched.time_shim()
    X.time = pysched.time_shim()
    PI.threading = pysched.threading_shim()
    for red in (getattr(X, "_STDOUT_REDIRECT", None), getattr(X, "_STDERR_REDIRECT", None)):
        if red is not None:
            red._lock = pysched.CoLock()  # module-level real lock: would be held across scheduling points


def _traced(filtered):
    import xonsh.procs.pipelines as P
    import xonsh.procs.pipes as PI
    import xonsh.procs.proxies as X
    import xonsh.procs.readers as R

    fs = []
    for cls in (P.CommandPipeline, X.ProcProxyThread, PI.PipeChannel, R.QueueReader, R.NonBlockingFDReader):
        for name, f in vars(cls).items():
            if callable(f) and hasattr(f, "__code__") and name not in ("__repr__", "__str__"):
                fs.append(f)
    fs += [R.populate_fd_queue, P._read_all, P._drain_stdout, P.safe_readlines, P.safe_readable]
    # the process-global standard streams are shared state too: who installs / restores / closes them
    import xonsh.tools as XT

    fs += [R.safe_fdclose, XT._RedirectStream.__enter__, XT._RedirectStream.__exit__, X.FileThreadDispatcher.register, X.FileThreadDispatcher.deregister, X.FileThreadDispatcher.close]
    shared = getattr(X, "_SharedRedirect", None)
    if shared is not None:
        fs += [shared.__enter__, shared.__exit__, shared.current]
    codes = pysched.codes_of(*fs)
    if filtered:
        return pysched.shared_lines(
            codes,
            [r"\.closed\b", r"\.queue\b", r"is_alive|\.join\(|\.wait\(|\.poll\(", r"returncode", r"read_queue|readlines|iterqueue|read\(", r"close_writer|close_reader|_write_fd|_read_fd|_lock", r"os\.read|queue\.(put|get)", r"\.start\(", r"time\.sleep|sleep\(", r"hasattr\(self", r"prevs_are_closed|_closed_handle_cache|\.lines\b|_raw_output|\.ended\b|yield", r"sys\.std(out|err)|getattr\(sys|setattr\(sys|safe_fdclose\(|_REDIRECT|redirect_std|registry|handle\.close"],
        )
    return codes


def _mk_alias(s, spec, idx):
    chunks, rc = spec

    def producer(args, stdin=None, stdout=None, stderr=None):
        lazy = "noflush" in chunks
        for c in chunks:
            if c == "noflush":
                continue
            s.point()
            if c == "sysexit":
                raise SystemExit(rc)
            if c == "close":
                stdout.close()
            elif isinstance(c, tuple) and c[0] == "silence":
                import contextlib
                import io

                with contextlib.redirect_stdout(io.StringIO()), contextlib.redirect_stderr(io.StringIO()):
                    for _ in range(c[1]):
                        s.point()
            elif isinstance(c, tuple):
                return c[1]  # the output handed back as the return value (code 0)
            else:
                stdout.write(c.decode("latin1"))
                if not lazy:
                    stdout.flush()
        s.point()
        return rc

    def passthrough(args, stdin=None, stdout=None, stderr=None):
        import os
        import select

        fd = stdin.fileno()
        nlines = 0
        while True:
            s.point(pred=lambda: bool(select.select([fd], [], [], 0)[0]))
            data = os.read(fd, 1024)
            if not data:
                break
            if chunks == "pass-print":
                import sys as _sys

                print("B:" + data.decode("latin1"), end="")
                _sys.stdout.flush()
            else:
                stdout.write("B:" + data.decode("latin1"))
                stdout.flush()
            nlines += data.count(b"\n")
            if chunks == "head1" and nlines >= 1:
                break  # exits early while the producer may still be writing
        return rc

    f = producer if isinstance(chunks, list) else passthrough
    f.__name__ = f"alias{idx}"
    return f


def _expected(shape):
    kind, stages = SHAPES[shape]
    data = b"".join(c if isinstance(c, bytes) else (c[1].encode() if isinstance(c, tuple) and c[0] == "return" else b"") for c in stages[0][0])
    if len(stages) == 2:
        mode = stages[1][0]
        if mode == "pass":
            exp = None  # chunk boundaries decide where the "B:" prefixes fall: checked structurally
        else:
            exp = None
    else:
        exp = data.decode("latin1")
    return kind, exp, stages[-1][1], data


def _body(s):
    import io
    import os
    import sys

    import xonsh.procs.proxies as X

    kind, stages = SHAPES[_SHAPE]
    # the session's own standard streams are played by sacrificial objects: a schedule that closes
    # or loses them must not take the checker's streams with it
    real = (sys.stdout, sys.stderr, X.STDOUT_DISPATCHER.default, X.STDERR_DISPATCHER.default)
    sac_out = io.TextIOWrapper(open(os.devnull, "wb"))
    sac_err = io.TextIOWrapper(open(os.devnull, "wb"))
    sys.stdout, sys.stderr = sac_out, sac_err
    X.STDOUT_DISPATCHER.default, X.STDERR_DISPATCHER.default = sac_out, sac_err
    X.STDOUT_DISPATCHER.registry.clear()
    X.STDERR_DISPATCHER.registry.clear()
    for red in (getattr(X, "_STDOUT_REDIRECT", None), getattr(X, "_STDERR_REDIRECT", None)):
        if red is not None:
            red._count, red._saved = 0, None
    try:
        res = _commands(s, kind, stages)
        res["std"] = {"stdout_is_sessions": sys.stdout is sac_out, "stderr_is_sessions": sys.stderr is sac_err, "stdout_closed": sac_out.closed, "stderr_closed": sac_err.closed, "stdout_now": type(sys.stdout).__name__, "stderr_now": type(sys.stderr).__name__}
        return res
    finally:
        sys.stdout, sys.stderr, X.STDOUT_DISPATCHER.default, X.STDERR_DISPATCHER.default = real
        for f in (sac_out, sac_err):
            try:
                f.close()
            except Exception:  # noqa: BLE001
                pass


def _commands(s, kind, stages):
    from xonsh.built_ins import subproc_captured_object, subproc_captured_stdout

    names = []
    for i, st in enumerate(stages):
        n = f"al{i}"
        _XSH.aliases[n] = _mk_alias(s, st, i)
        names.append(n)
    cmds = []
    for i, n in enumerate(names):
        if i:
            cmds.append("|")
        cmds.append([n])
    if kind.startswith("pipe-then-capture"):
        outs = [subproc_captured_stdout(*cmds)]
        for _ in range(2 if kind.endswith("2") else 1):
            outs.append(subproc_captured_stdout([names[0]]))
        res = {"out": "|".join(outs), "rtn": _XSH.lastcmd.rtn if getattr(_XSH, "lastcmd", None) is not None else None}
    elif kind == "stdout2":
        out1 = subproc_captured_stdout(*cmds)
        out2 = subproc_captured_stdout(*cmds)
        res = {"out": out1 + "|" + out2, "rtn": _XSH.lastcmd.rtn if getattr(_XSH, "lastcmd", None) is not None else None}
    elif kind == "stdout":
        out = subproc_captured_stdout(*cmds)
        rtn = _XSH.lastcmd.rtn if getattr(_XSH, "lastcmd", None) is not None else None
        res = {"out": out, "rtn": rtn}
    elif kind == "objectpeek":
        obj = subproc_captured_object(*cmds)
        peek = obj.output  # non-blocking: whatever has arrived
        s.point()
        peek2 = obj.output
        obj.end()
        res = {"peek": [peek, peek2], "out": obj.out, "rtn": obj.rtn, "raw": obj.raw_out, "lines": list(obj.lines), "output_after": obj.output}
    elif kind == "objectiter":
        obj = subproc_captured_object(*cmds)
        it = [ln for ln in obj]
        res = {"iterated": it, "raw": obj.raw_out, "out": obj.out, "rtn": obj.rtn, "lines": list(obj.lines), "raw_again": obj.raw_out}
    else:
        obj = subproc_captured_object(*cmds)
        obj.end()
        res = {"out": obj.out, "rtn": obj.rtn, "raw": obj.raw_out, "lines": list(obj.lines)}
    # helper threads get a bounded (virtual) grace period to finish
    left = []
    for t in list(s.threads[1:]):
        if t.state != "finished":
            s.point(pred=lambda t=t: t.state == "finished", timeout=5.0, early=False)
            if t.state != "finished":
                left.append(t.name)
    res["threads_left"] = left
    return res


def _check(r, prefix):
    viols = []
    kind, exp, rc, data = _expected(_SHAPE)

    def V(key, clause, observed, expected):
        viols.append({"key": f"T2:{key}", "clause": clause, "case": {"tier": "T2", "shape": _SHAPE}, "observed": observed, "expected": expected})

    if r.outcome or r.error or r.errors:
        V(f"abnormal:{r.outcome or 'exception'}:{_SHAPE.split('-')[0]}", "no deadlock / livelock / exception under any schedule", [r.outcome, r.error, [e[1][:200] for e in r.errors]], "normal completion")
        return viols
    v = r.value
    out = v["out"]
    stages = SHAPES[_SHAPE][1]
    std = v.get("std") or {}
    if std.get("stdout_closed") or std.get("stderr_closed"):
        V("session-std-streams-closed", "a command leaves the session able to run the next one (its own sys.stdout / sys.stderr are not closed under it)", std, "both open")
    elif std and not (std["stdout_is_sessions"] and std["stderr_is_sessions"]):
        V("session-std-streams-replaced", "a command leaves the session able to run the next one (sys.stdout / sys.stderr are the session's streams again)", std, "the streams that were installed before the command")
    if kind.startswith("pipe-then-capture"):
        n_after = 2 if kind.endswith("2") else 1
        parts = (out or "").split("|")
        want_first = "a"
        if len(parts) != 1 + n_after or parts[0].replace("B:", "") != want_first or any(p != "a" for p in parts[1:]):
            V(f"output-differs:{kind}", "captured output is exactly what the command wrote", out, "|".join(["B:a"] + ["a"] * n_after))
        if v.get("threads_left"):
            V(f"helper-threads-left:{kind}", "helper threads end with the command", v["threads_left"], [])
        if v["rtn"] != 0:
            V(f"returncode:{kind}", "the reported return code is the final stage's", v["rtn"], 0)
        return viols
    if len(stages) == 1:
        want = exp.replace("\r\n", "\n").replace("\r", "\n")
        if kind in ("stdout", "stdout2") and want.endswith("\n") and want.count("\n") == 1:
            want = want[:-1]
        if kind == "stdout2":
            want = want + "|" + want
        if out != want:
            V(f"output-differs:{kind}:{'lost' if len(out or '') < len(want) else 'extra'}", "captured output is exactly what the command wrote", out, want)
        if kind == "objectpeek" and v["output_after"] != want:
            V("views-of-one-object-disagree:output-after-end", "every view of the pipeline object shows the complete output", v["output_after"], want)
        if kind in ("object", "objectiter", "objectpeek") and v.get("raw") is not None and v["raw"] != data:
            V("raw-out-differs", "raw_out is exactly the bytes written", v["raw"][:60], data[:60])
        if kind == "objectiter":
            if "".join(v["iterated"]) != want or "".join(v["lines"]) != want or v["raw_again"] != data:
                V("views-of-one-object-disagree", "every view of the pipeline object shows the complete output", {"iterated": v["iterated"], "lines": v["lines"], "raw_again": v["raw_again"][:60]}, want)
    else:
        mode = stages[1][0]
        if kind == "object" and v.get("raw") is not None:
            out = v["raw"].decode("latin1")  # `.out` drops the newline of a one-line output (stream_lines)
        stripped = (out or "").replace("B:", "")
        full = data.decode("latin1")
        if mode in ("pass", "pass-print"):
            want = full[:-1] if (kind == "stdout" and full.count("\n") == 1 and full.endswith("\n")) else full
            if stripped != want:
                V(f"pipeline-output-differs:{kind}", "every byte of the final stage arrives once and in order", out, want)
        else:
            # the final stage stops after the first line: whatever it wrote (a prefix of the
            # producer's data containing >= 1 line) must arrive completely
            if not (full.startswith(stripped) and stripped.count("\n") >= 1):
                V(f"pipeline-output-differs:{kind}:early-exit", "what the final stage wrote arrives completely", out, "a line-complete prefix of " + repr(full))
    if v.get("threads_left"):
        V(f"helper-threads-left:{kind}", "helper threads end with the command", v["threads_left"], [])
    if v["rtn"] != rc:
        V(f"returncode:{kind}", "the reported return code is the final stage's", v["rtn"], rc)
    return viols


class _Hang(Exception):
    pass


def run_part(ctx):
    global _SHAPE
    bound = ctx.pick(1, 2)
    # polling loops (iterraw, _wait_and_getattr) create dozens of free switch points per execution;
    # T2 therefore bounds *deviations* from the default schedule (every non-default choice costs 1)
    pysched.COST_MODE = "deviation"
    names = list(SHAPES) if ctx.thorough else QUICK
    _setup()
    traced = _traced(filtered=True)
    total = {"executions": 0, "steps": 0, "sigs": set(), "capped": None}
    per = {}
    for name in names:
        _SHAPE = name
        # baseline sanity: the default schedule must satisfy the oracle, otherwise the harness is wrong
        r0 = pysched.run_once(_body, [], traced, 60000)
        v0 = _check(r0, [])
        if v0:
            ctx.add_violations([dict(v, key=v["key"] + ":default-schedule") for v in v0])
            ctx.log(f"T2 {name}: default schedule already violates: {v0[0]['key']} {str(v0[0]['observed'])[:200]}")
            continue
        viols, st = pysched.explore(_body, _check, traced, bound, ctx, setup=_setup, max_execs_per_shard=ctx.pick(600, 60000), max_steps=60000, budget_s=ctx.pick(45, 150))
        ctx.add_violations(viols)
        total["executions"] += st.executions
        total["steps"] += st.steps
        total["sigs"] |= st.sigs
        total["capped"] = total["capped"] or st.capped
        per[name] = st.executions
        ctx.log(f"T2 {name}: {st.executions} schedules, {st.steps} steps, max {st.max_choice_points} choice points, {len(viols)} raw violations")
    if ctx.thorough:
        # the order of "publish the return code" and "flush what the alias left in its stream wrapper":
        # on the narrow alphabet of lines that flush, publish/poll the code, join or close, one more
        # deviation is affordable
        narrow = pysched.shared_lines(_traced(filtered=False), [r"returncode", r"safe_flush|\.flush\(", r"\.poll\(|\.join\(|is_alive", r"close_writer|close_reader|_safe_close|safe_fdclose", r"os\.read|queue\.(put|get)", r"time\.sleep|sleep\("])
        _SHAPE = "$(L|B)"
        viols, st = pysched.explore(_body, _check, narrow, bound, ctx, setup=_setup, max_execs_per_shard=200000, max_steps=60000, budget_s=1200)
        ctx.add_violations([dict(v, key=v["key"] + ":flush-alphabet") for v in viols])
        total["executions"] += st.executions
        total["steps"] += st.steps
        total["sigs"] |= st.sigs
        total["capped"] = total["capped"] or st.capped
        per["$(L|B) [flush alphabet]"] = st.executions
        ctx.log(f"T2 $(L|B) (flush alphabet, deviation bound {bound}): {st.executions} schedules, {st.steps} steps, max {st.max_choice_points} choice points, {len(viols)} raw violations")
    pysched.COST_MODE = "preemption"
    ctx.sample({"tier": "T2", "shape": names[0], "stages": [[c.decode("latin1") if isinstance(c, bytes) else str(c) for c in (st[0] if isinstance(st[0], list) else [st[0]])] for st in SHAPES[names[0]][1]], "preemption_bound": bound})
    return {
        "states": len(total["sigs"]),
        "transitions": total["steps"],
        "executions": total["executions"],
        "exhaustive": total["capped"] is None,
        "summary": {"deviation_bound": bound, "schedules_per_shape": per, "capped": total["capped"], "scheduling_points": "lines touching shared state (shared_lines filter) of CommandPipeline / ProcProxyThread / PipeChannel / readers"},
    }


def replay(rec):
    global _SHAPE
    _SHAPE = rec["case"]["shape"]
    _setup()
    r = pysched.run_once(_body, rec["case"].get("schedule", []), _traced(True), 60000)
    vs = _check(r, [])
    print("outcome", r.outcome, r.error, r.errors, "value", r.value)
    for v in vs:
        print("VIOLATION", v["key"], v["observed"], v["expected"])
    return 1 if vs else 0
