"""C06 - captured output is complete, ordered and exactly what the command wrote.

pysched (stateless, preemption-bounded exploration of the real threads):
  T1  reader core: a scripted writer (k chunks then close), the real NonBlockingFDReader /
      populate_fd_queue thread and a consumer that uses the real read paths in the pattern
      CommandPipeline.iterraw / _read_all use (timed readlines while the producer lives, then the
      blocking drain), over real pipes.
  T0  PipeChannel fd ownership: concurrent closers of one channel followed by the next capture pipe
      (xv/c06_t0.py).
  T2  whole capture path with callable-alias stages: the real subproc_captured_stdout /
      subproc_captured_object / pipelines (`$(A)`, `!(A)`, `A | B`) with threaded aliases writing
      scripted chunks - ProcProxyThread, CommandPipeline, readers all run for real under the
      scheduler (xv/c06_t2.py).
  T3  the same path with a REAL child process as final stage (PopenThread, waitpid, pty/pipe channels),
      single-stepped as a puppet through FIFOs (xv/c06_t3.py, xv/puppet.c).
Oracle: the bytes delivered == the bytes the final stage was told to write, once and in order; return
code = final stage's; no deadlock / livelock / exception under any schedule within the bound.

Does not require: ordering between stdout and stderr; anything for alternate-screen payloads."""

import os
import threading

from . import common, pysched

LEVEL = "model_checking"

CHUNKSETS = {
    "a": [b"a"],
    "empty": [],
    "nl": [b"a\n"],
    "a-nl-b": [b"a\nb"],
    "two": [b"a\n", b"b"],
    "three": [b"x", b"y\n", b"z"],
    "1023+1": [b"x" * 1023, b"y"],
    "1024": [b"x" * 1024],
    "1025": [b"x" * 1025],
    "emptychunk": [b"a", b"", b"b"],
    # more lines in one poll than the consumer's readlines(1024) hint
    "1100-lines": [b"\n" * 1000, b"\n" * 1100, b"tail"],
}
CONSUMERS = ["iterraw", "read", "iterqueue", "readline"]

_CASE = None


def _setup_t1():
    import xonsh.procs.readers as R

    R.os = pysched.os_read_shim()
    R.queue = pysched.queue_shim()
    R.time = pysched.time_shim()


def _traced_t1():
    import xonsh.procs.readers as R

    return pysched.codes_of(
        R.QueueReader.is_fully_read,
        R.QueueReader.read_queue,
        R.QueueReader.read,
        R.QueueReader.readline,
        R.QueueReader._read_all_lines,
        R.QueueReader.readlines,
        R.QueueReader.iterqueue,
        R.QueueReader.close,
        R.populate_fd_queue,
        R.NonBlockingFDReader.__init__,
    )


def _body_t1(s):
    import xonsh.procs.readers as R

    chunks = CHUNKSETS[_CASE[0]]
    consumer = _CASE[1]
    rfd, wfd = os.pipe()
    state = {"w": wfd}

    def writer():
        for c in chunks:
            s.point()
            if c:
                os.write(wfd, c)
        s.point()
        os.close(wfd)
        state["w"] = None

    wt = threading.Thread(target=writer, name="writer")
    out = bytearray()
    try:
        wt.start()
        reader = R.NonBlockingFDReader(rfd, timeout=0.1)
        if consumer == "iterraw":
            cnt = 1
            while wt.is_alive():
                lines = reader.readlines(1024)
                for ln in lines:
                    out += ln
                cnt = min(cnt + 1, 1000) if not lines else 1
                s.sleep(0.1 * cnt)
            for ln in reader.readlines():
                out += ln
            wt.join()
            for ln in reader.readlines():
                out += ln
        elif consumer == "read":
            # _read_all: while not fully read, read()
            while not reader.is_fully_read():
                out += reader.read(1024)
        elif consumer == "iterqueue":
            for chunk in reader.iterqueue():
                out += chunk
        elif consumer == "readline":
            while not reader.is_fully_read():
                out += reader.readline()
        wt.join()
        reader.thread.join()
        fully = reader.is_fully_read()
    finally:
        if state["w"] is not None:
            try:
                os.close(state["w"])
            except OSError:
                pass
        os.close(rfd)
    return bytes(out), fully


def _check_t1(r, prefix):
    viols = []
    want = b"".join(CHUNKSETS[_CASE[0]])

    def V(key, clause, observed, expected):
        viols.append({"key": f"T1:{key}", "clause": clause, "case": {"tier": "T1", "chunks": _CASE[0], "consumer": _CASE[1]}, "observed": observed, "expected": expected})

    if r.outcome or r.error or r.errors:
        V(f"abnormal:{r.outcome or 'exception'}:{_CASE[1]}", "no deadlock / livelock / exception under any schedule", [r.outcome, r.error, r.errors], "normal completion")
        return viols
    got, fully = r.value
    if got != want:
        kind = "lost" if len(got) < len(want) else ("duplicated" if len(got) > len(want) else "reordered")
        V(f"bytes-{kind}:{_CASE[1]}", "every byte written is delivered once and in order", [len(got), got[:40].decode("latin1")], [len(want), want[:40].decode("latin1")])
    if not fully:
        V(f"not-fully-read-at-end:{_CASE[1]}", "reader reports completion after EOF", fully, True)
    return viols


def run(ctx):
    global _CASE
    bound = ctx.pick(2, 3)
    _setup_t1()
    traced = _traced_t1()
    cases = []
    if ctx.thorough:
        for cs in CHUNKSETS:
            for co in CONSUMERS:
                cases.append((cs, co))
    else:
        for cs in ("a", "empty", "two", "1025", "a-nl-b", "1100-lines"):
            cases.append((cs, "iterraw"))
        for co in ("read", "iterqueue", "readline"):
            cases.append(("two", co))
    total = {"executions": 0, "steps": 0, "sigs": set(), "capped": None}
    per = {}
    outcomes = set()
    for case in cases:
        _CASE = case
        viols, st = pysched.explore(_body_t1, _check_t1, traced, bound, ctx, setup=_setup_t1, max_execs_per_shard=ctx.pick(4000, 300000), max_steps=5000, budget_s=ctx.pick(40, 60))
        ctx.add_violations(viols)
        total["executions"] += st.executions
        total["steps"] += st.steps
        total["sigs"] |= st.sigs
        total["capped"] = total["capped"] or st.capped
        per["/".join(case)] = st.executions
    ctx.log(f"T1 reader core: {len(cases)} harnesses, {total['executions']} schedules, {total['steps']} steps, bound {bound}")
    from . import c06_t0

    t0 = c06_t0.run_part(ctx)
    t2 = None
    try:
        from . import c06_t2
    except ImportError:
        c06_t2 = None
    if c06_t2 is not None:
        t2 = c06_t2.run_part(ctx)
    t3 = None
    try:
        from . import c06_t3
    except ImportError:
        c06_t3 = None
    if c06_t3 is not None:
        t3 = c06_t3.run_part(ctx)
    from . import c06_sizes

    sz = c06_sizes.run_part(ctx)
    ctx.log(f"sizes (free-running, real children): {sz['cases']} cases x {c06_sizes.REPS} repetitions, sizes {sz['sizes']}")
    ctx.sample({"tier": "T1", "chunks": "two", "consumer": "iterraw", "threads": ["consumer(main)", "writer", "populate_fd_queue"], "preemption_bound": bound})
    ctx.coverage.update(
        t0=t0["summary"],
        states=len(total["sigs"]) + t0["states"] + (t2["states"] if t2 else 0) + (t3["states"] if t3 else 0),
        transitions=total["steps"] + t0["transitions"] + (t2["transitions"] if t2 else 0) + (t3["transitions"] if t3 else 0),
        traces_validated_against_impl=total["executions"] + t0["executions"] + (t2["executions"] if t2 else 0) + (t3["executions"] if t3 else 0),
        t3=t3["summary"] if t3 else "not run",
        sizes_free_running={"cases": sz["cases"], "executions": sz["executions"], "sizes": sz["sizes"], "timing_dependent_wrong_returncodes_seen": sz["timing_dependent_wrong_returncodes_seen"], "note": "exhaustive over sizes/kinds/shapes, NOT over schedules"},
        preemption_bound=bound,
        exhaustive=total["capped"] is None and t0["exhaustive"] and (t2["exhaustive"] if t2 else True) and (t3["exhaustive"] if t3 else True),
        caps_hit=total["capped"],
        t1_schedules=per,
        t2=t2["summary"] if t2 else "not run",
        explanation="every execution is a run of the real reader/pipeline threads under the controlled scheduler; states = distinct (thread locations, chosen thread) signatures; bytes compared with what the writer was told to write",
    )
    ctx.assumptions += ["line-level atomicity", "payloads <= 1025 bytes per chunk (no pipe-buffer back-pressure) in the scheduled tiers", "os.read/queue.get/time.sleep of xonsh.procs.readers are cooperative shims; the pipes are real"]


def replay(rec):
    global _CASE
    c = rec["case"]
    if c.get("tier") == "T0":
        from . import c06_t0

        return c06_t0.replay(rec)
    if c.get("tier") == "T2":
        from . import c06_t2

        return c06_t2.replay(rec)
    if c.get("tier") == "sizes":
        from . import c06_sizes

        return c06_sizes.replay(rec)
    if c.get("tier") == "T3":
        from . import c06_t3

        return c06_t3.replay(rec)
    _CASE = (c["chunks"], c["consumer"])
    _setup_t1()
    r = pysched.run_once(_body_t1, c.get("schedule", []), _traced_t1(), 5000)
    vs = _check_t1(r, [])
    print("outcome", r.outcome, r.error, r.errors, "value", r.value)
    for v in vs:
        print("VIOLATION", v["key"], v["observed"], v["expected"])
    return 1 if vs else 0
