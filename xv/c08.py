"""C08 - command lookup equals a POSIX $PATH search and never goes stale.

seqx: breadth-first search over histories of create / delete / chmod / $PATH-edit / cd events on a
real directory tree, in a process that dropped the DAC capabilities.  After EVERY event every view
xonsh offers of "which file does this command name mean" is queried on the real implementation

    locate-executable   xonsh.procs.executables.locate_executable(name)
    cache-locate        XSH.commands_cache.locate_binary(name)
    cache-contains      name in XSH.commands_cache
    cache-iter          name in iter(XSH.commands_cache)          (completion listing; bare names)
    spec                SubprocSpec.build([name]).binary_loc
    spawn               $(name /proc/self/exe) through run_subproc   (once per distinct state)

for name in {x, y, ./x, d1/x, /abs/d1/x} and compared with a 10-line reference PATH search which is
itself cross-checked on every distinct state against shutil.which and /bin/sh (`command -v` and a
real execution); when the three references disagree the (state, name) pair is counted as ambiguous
and skipped.  What is compared is the directory entry SELECTED (device/inode of the directory +
entry name, device/inode of the file, index of the $PATH entry), never the spelling of the path.

Time is owned: directory mtimes are set from a logical clock that advances 1 s per create/delete
(what a real file system does for operations further apart than its timestamp granularity); chmod
does not touch the directory mtime (real behaviour).  Since the lookups happen on every state the
cache is always as fresh as a user who looks after every change could have it.

Events also land IN THE MIDDLE of a cache refresh: the directory-listing seam the cache uses
(xonsh.commands_cache.executables_in) is rebound in that module's namespace, and the event kind
`during-scan(<create exe | delete | chmod>)` bumps the directory mtime (so that the next refresh
re-lists it) and arms the file-system event, which is then performed - with its own logical-clock
mtime bump, like any other event - right after the listing of its directory has been read and
before the refresh continues.  The answer of the interrupted refresh itself is not judged; from
the next complete refresh on (one more lookup, then all views) everything has to be right.  The
event is offered only while its directory is on the effective $PATH (otherwise it is never listed).

File kinds include regular files that HAVE execute mode bits but not for this process (owned by
uid 65534 with mode 0700 / 0070, or our own file with mode 0655): the process drops
CAP_DAC_OVERRIDE / CAP_DAC_READ_SEARCH from its effective/permitted sets (xv.caps) AND from the
capability bounding set, so that /bin/sh and spawned children do not regain them at execve; the
oracle stays "first file along $PATH this process may execute" (os.access + a real exec by sh).

A transient failure of a directory scan is an event too: `scan-fault(d)` bumps d's mtime (so the
next refresh re-lists it) and makes the next os.scandir(d) issued by xonsh.commands_cache (its
`os` is rebound to a delegating shim) raise OSError(EMFILE) once.  The lookup that hits the fault
may raise or answer "not found" and is not judged; from the next lookup on every view has to
agree with the file system again.

Listings handed out lazily are consumed ACROSS every checked transition: before the event each of
iter(cache), cache.iter_commands(), iteration of cache.all_commands, cache.lazyiter() and the real
completer generator xonsh.completers.commands.complete_command is started and k = 0 / 1 items are
taken; after the event and the refresh it causes the rest is consumed.  It must not raise and must
deliver every command that the complete listing shows both before and after the event
(`iter-resumed:<view>:raised-<Exc>` / `:missed-command`).  The concurrent version of the same
question (a refresh in one thread while another thread queries the cache, all interleavings with a
bounded number of preemptions) is xv/c08_sched.py, run after the BFS (`sched:...` keys).

The ORDER of the probes matters (a view that refreshes the shared table masks a view that forgot to):
the completion listing (the real complete_command generator, empty prefix, view `completion-listing`)
is always the first view probed on a state, and in the "+completion" phases it is also the one
lookup every state gets instead of `'x' in cache`, so that between two completion listings nothing
else touches the cache.  time.monotonic as seen by xonsh.completers.commands / xonsh.commands_cache
(module-level `time` / `monotonic` names) is virtual: frozen inside a history, +10 s per new history.
A completion-listing mismatch is reported only where it differs from what iteration of the cache
answers on the same state (otherwise it is the cache-iter finding).

`backdated(<create exe | delete>)` changes a $PATH directory's content and leaves it with an OLDER
mtime than any seen before (restore preserving directory times, rollback by rename, clock stepped
back); the two-rename swap with a prepared sibling is not modelled separately (same observable:
other content, older mtime, at the same path).

Only mismatches that are NEW on a state (not already present, identically, on the state before the
event) are reported, and a mismatch of a cache view is classified by REPAIR TRANSFORMS, so that
keys name root causes and not inputs:
  * `x/y in cache` for an explicit path that equals the answer for its bare basename
        -> `cache-contains:logic:explicit-name-decided-by-basename`;
  * a brand-new CommandsCache on the same state is just as wrong -> `<view>:logic:<kind>:<name class>:<what was selected>`
    (the same form is used for the stateless views locate-executable / spec / spawn);
  * otherwise the view is STALE and is blamed on the event the cache failed to notice: the last
    event E of the history such that renewing the cache object right after E heals the view while
    renewing it just before E does not -> `<view>:stale-after-<class of E>` (chmod+x, chmod-x,
    path-edit, cd, create-*, delete, during-scan(...)); a blamed during-scan event whose view is
    just as wrong when the same event lands between two complete refreshes is attributed to the
    plain event class (chmod is never noticed, whenever it happens).

Does not require: equal path spelling; any particular error text/kind for a name that resolves to
nothing; behaviour of $XONSH_COMMANDS_CACHE_READ_DIR_ONCE directories (empty here); Windows PATHEXT
logic; alias names in the cache (the alias table is emptied); iteration of the cache containing
explicit paths; anything on (state, name) pairs where sh / shutil.which / the reference disagree
(e.g. a lone empty $PATH)."""

import contextlib
import ctypes
import errno
import io
import json
import os
import shutil
import subprocess
import time

from . import caps, common, seqx
from .session import load_session

LEVEL = "model_checking"

BASE_T = 1_500_000_000
NAMES = ("x", "y")
LOOKUPS = ("x", "y", "./x", "d1/x", "{R}/d1/x")
SPAWN_LOOKUPS = ("x", "./x", "d1/x")  # the real-spawn view (12 ms each) is limited to one name per class
KIND_NAMES = {
    "E": "exe",
    "N": "nonexec",
    "D": "dir",
    "LE": "link-exe",
    "LX": "link-dangling",
    "LD": "link-dir",
    # regular files that HAVE execute mode bits, but not for this process (DAC capabilities dropped)
    "FO": "foreign-owner-only-x",  # uid/gid 65534, mode 0700
    "FG": "foreign-group-only-x",  # uid/gid 65534, mode 0070
    "OX": "own-file-owner-lacks-x",  # ours, mode 0655: group/other may execute, the owner (us) may not
}
FOREIGN = 65534
FILE_MODES = {"E": (0o755, None), "N": (0o644, None), "FO": (0o700, FOREIGN), "FG": (0o070, FOREIGN), "OX": (0o655, None)}
NOT_FOR_US = ("FO", "FG", "OX")
SEL_VIEWS = ("locate-executable", "cache-locate", "spec")
BOOL_VIEWS = ("cache-contains", "cache-iter", "completion-listing")
CACHE_VIEWS = ("cache-locate", "cache-contains", "cache-iter", "completion-listing")
_VT = [1000.0]  # virtual time.monotonic() of the xonsh modules that look at it: frozen within a history


class _TimeShim:
    """`time` as a xonsh module sees it: real, except monotonic() (owned: results must not depend on machine speed)."""

    def __init__(self, real):
        self._real = real

    def __getattr__(self, name):
        return getattr(self._real, name)

    def monotonic(self):
        return _VT[0]

D1, D2, D3, W = "{R}/d1", "{R}/d2", "{R}/d3", "{R}/w"
PATHS = [
    [D1, D2],  # 0 initial
    [D2, D1],  # 1 reordered
    [D2],  # 2 d1 dropped
    [D1, D2, D1],  # 3 duplicate
    ["{R}/missing", D2, D1],  # 4 missing directory first
    ["", D2],  # 5 empty entry = cwd
    [D1, "."],  # 6 dot last
    ["../d2", D1],  # 7 relative entry (valid from w, d1, d2)
    ["{R}/ld1", D2],  # 8 symlinked directory (-> d1)
    [],  # 9 empty
    [D2, "{R}/ld1", D1],  # 10 duplicate through a symlink
    ["d1", D2],  # 11 relative entry without dots (valid from R)
    [D3, D1, D2],  # 12
    [D1, D3],  # 13
]
ALL_KINDS = "E N D LE LX LD"

ALPHA = {
    # small alphabet for deep histories
    "core": {
        "dirs": ("d1", "d2", "w"),
        "kinds": {("d1", "x"): "E N D LE LX", ("d2", "x"): "E N", ("w", "x"): "E", ("d1", "y"): "E"},
        "paths": (0, 1, 2, 5, 8),
        "inplace": (["path.append", D2], ["path.remove", D1]),
        "cd": ("w", "d1"),
        "scan": (("d1", "x"), ("d2", "x")),
        "fault": ("d1",),
    },
    # quick tier (a subset of "mid")
    "quick": {
        "dirs": ("d1", "d2", "w"),
        "kinds": {("d1", "x"): ALL_KINDS + " FO", ("d2", "x"): "E N D LE LX", ("w", "x"): "E N", ("d1", "y"): "E"},
        "paths": (0, 1, 2, 5, 6, 7, 8, 9),
        "inplace": (["path.append", D2], ["path.insert0", D2], ["path.remove", D1]),
        "cd": ("w", "R"),
        "scan": (("d1", "x"), ("d2", "x"), ("d1", "y")),
        "fault": ("d1",),
    },
    "mid": {
        "dirs": ("d1", "d2", "w"),
        "kinds": {
            ("d1", "x"): ALL_KINDS + " FO OX",
            ("d2", "x"): ALL_KINDS + " FO",
            ("w", "x"): "E N",
            ("d1", "y"): "E",
            ("d2", "y"): "E",
            ("w", "y"): "E",
        },
        "paths": (0, 1, 2, 3, 4, 5, 6, 7, 8, 9),
        "inplace": (["path.append", D2], ["path.insert0", D2], ["path.remove", D1]),
        "cd": ("w", "R", "d1"),
        "scan": (("d1", "x"), ("d2", "x"), ("w", "x"), ("d1", "y")),
        "fault": ("d1", "d2"),
    },
    "full": {
        "dirs": ("d1", "d2", "d3", "w"),
        "kinds": {
            **{(d, "x"): ALL_KINDS + " FO FG OX" for d in ("d1", "d2")},
            **{(d, "x"): ALL_KINDS + " FO" for d in ("d3", "w")},
            ("d1", "y"): "E N D",
            ("d2", "y"): "E N D",
            ("d3", "y"): "E",
            ("w", "y"): "E",
        },
        "paths": tuple(range(len(PATHS))),
        "inplace": (
            ["path.append", D2],
            ["path.insert0", D2],
            ["path.remove", D1],
            ["path.remove", D2],
            ["path.append", ""],
            ["path.append", "."],
            ["path.insert0", D3],
        ),
        "cd": ("w", "R", "d1", "d2"),
        "scan": (("d1", "x"), ("d2", "x"), ("d3", "x"), ("w", "x"), ("d1", "y"), ("d2", "y")),
        "fault": ("d1", "d2", "w"),
    },
}
ALL_DIRS = ("d1", "d2", "d3", "w")
MAX_PATH_LEN = 4

_ACTIVE = None  # the harness the wrapped directory-listing seam reports to
_MEMO_DIR = None  # shared (across worker processes) store of reference cross-checks, set by run()


def _drop_dac_from_bounding_set():
    """prctl(PR_CAPBSET_DROP) for CAP_DAC_OVERRIDE / CAP_DAC_READ_SEARCH: a root child would otherwise
    regain them at execve and /bin/sh would execute files this process may not."""
    if os.geteuid() != 0:
        return True
    try:
        libc = ctypes.CDLL(None, use_errno=True)
        return all(libc.prctl(24, c, 0, 0, 0) == 0 for c in (caps.CAP_DAC_OVERRIDE, caps.CAP_DAC_READ_SEARCH))
    except Exception:  # noqa: BLE001
        return False


class _OsShim:
    """`os` as xonsh.commands_cache sees it: everything is the real module, except that scandir asks
    the active harness first whether this scan is the one that fails."""

    def __init__(self, real):
        self._real = real

    def __getattr__(self, name):
        return getattr(self._real, name)

    def scandir(self, path="."):
        if _ACTIVE is not None:
            _ACTIVE._scandir_fault(path)
        return self._real.scandir(path)


def evkind(ev):
    k = ev[0]
    if k == "mk":
        return "create-" + KIND_NAMES[ev[3]]
    if k == "rm":
        return "delete"
    if k == "chmod":
        return "chmod" + ev[3]
    if k == "cd":
        return "cd"
    if k == "during-scan":
        return f"during-scan({evkind(ev[1])})"
    if k == "scan-fault":
        return "scan-fault"
    if k == "backdated":
        return f"backdated({evkind(ev[1])})"
    return {"path=": "path-assign", "path.append": "path-append", "path.insert0": "path-insert", "path.remove": "path-remove"}[k]


def eclass(ev):
    """Event class used in staleness keys: all four kinds of $PATH edit are one class."""
    k = evkind(ev)
    return "path-edit" if k.startswith("path-") else k


def nameclass(name):
    if "/" not in name:
        return "bare"
    return "explicit"


class Raised(str):
    """Marker for a view that raised instead of answering."""


class Harness:
    def __init__(self, level="mid"):
        self.level = level
        self.cfg = ALPHA[level.split("+")[0]]
        # which view is the lookup every state gets (it is the FIRST view probed after an event):
        # `name in cache`, or - "+completion" - the completion listing, which must refresh by itself
        self.probe = "completion" if level.endswith("+completion") else "contains"
        self.back = 0
        self.root = os.path.realpath(common.scratch_dir("c08"))
        self.R = os.path.join(self.root, "R")
        # children (the /bin/sh reference, spawned commands) must not get the DAC capabilities back at
        # execve: drop them from the bounding set first, then from this process
        self.bset_ok = _drop_dac_from_bounding_set()
        self.caps_ok = caps.drop_dac_caps()
        self._mk_tree()
        os.chdir(self.p("w"))
        self.xsh = load_session(
            data_dir=os.path.join(self.root, "home"),
            path=[self.p("d1"), self.p("d2")],
            env={"THREAD_SUBPROCS": False, "SUGGEST_COMMANDS": False, "ENABLE_COMMANDS_CACHE": True},
        )
        # alias names are outside the statement: an empty alias table keeps them out of the cache views
        for k in list(self.xsh.aliases):
            del self.xsh.aliases[k]
        if list(self.xsh.env.get("XONSH_COMMANDS_CACHE_READ_DIR_ONCE") or []):
            raise common.ToolError("XONSH_COMMANDS_CACHE_READ_DIR_ONCE is not empty")
        from xonsh.commands_cache import CommandsCache
        from xonsh.procs.executables import locate_executable
        from xonsh.procs.specs import SubprocSpec
        from xonsh.tools import XonshError

        self.CommandsCache, self.locate_executable, self.SubprocSpec, self.XonshError = CommandsCache, locate_executable, SubprocSpec, XonshError
        self._install_scan_seam()
        self._armed = None  # file-system event to perform right after the next listing of its directory
        self._fault = None  # directory whose next scan fails once with EMFILE
        self.fault_fired = 0
        self._plain_scan = set()  # history indices whose during-scan event is moved out of the refresh (repair transform)
        self._memo = {}
        self._pre = (None, None)
        self._stash = None
        self.hist = []
        self.clock = 0
        self.scan_fired = 0
        self._scan_n = [0, 0, 0, 0, 0, 0]
        self.m_path = []
        self.m_cwd = "w"

    # -------------------------------------------------------------- environment
    def p(self, *parts):
        return os.path.join(self.R, *parts)

    def sub(self, s):
        return s.replace("{R}", self.R)

    def rel(self, s):
        return None if s is None else str(s).replace(self.R, "{R}")

    def _mk_tree(self):
        shutil.rmtree(self.R, ignore_errors=True)
        for d in ALL_DIRS + ("t", "t/dir"):
            os.makedirs(self.p(d))
        os.makedirs(os.path.join(self.root, "home"), exist_ok=True)
        src = shutil.which("readlink", path="/usr/bin:/bin")
        if src is None:
            raise common.ToolError("no readlink binary to copy as the test executable")
        self.template = self.p("t", "exe")
        shutil.copyfile(src, self.template)
        os.chmod(self.template, 0o755)
        os.symlink("d1", self.p("ld1"))
        probe = self.p("t", "probe")
        shutil.copyfile(self.template, probe)
        os.chmod(probe, 0o644)
        self.caps_ok = self.caps_ok and not os.access(probe, os.X_OK) and caps.permissions_bind(self.p("t"))
        # "has x bits, but not for us": needs bits that bind and a chown to another uid
        self.foreign_ok = False
        if self.caps_ok:
            try:
                os.chmod(probe, 0o700)
                os.chown(probe, FOREIGN, FOREIGN)
                self.foreign_ok = not os.access(probe, os.X_OK) and FOREIGN not in os.getgroups() + [os.getuid(), os.getgid()]
            except OSError:
                self.foreign_ok = False
        self.dirids = {}
        for d in ALL_DIRS + ("t",):
            st = os.stat(self.p(d))
            self.dirids[(st.st_dev, st.st_ino)] = d
        st = os.stat(self.R)
        self.dirids[(st.st_dev, st.st_ino)] = "R"

    def _install_scan_seam(self):
        """Rebind xonsh.commands_cache.executables_in (the directory listing the cache refresh uses) so
        that an armed file-system event lands right after the listing of its directory has been
        read completely and before the refresh continues."""
        global _ACTIVE
        import xonsh.commands_cache as ccmod

        if not getattr(ccmod.executables_in, "_c08_seam", False):
            orig = ccmod.executables_in

            def executables_in(path):
                yield from orig(path)
                if _ACTIVE is not None:
                    _ACTIVE._after_listing(path)

            executables_in._c08_seam = True
            ccmod.executables_in = executables_in
            ccmod.os = _OsShim(ccmod.os)  # os.scandir as the cache module sees it (transient scan faults)
            import types

            import xonsh.completers.commands as compmod

            for mod in (ccmod, compmod):
                if isinstance(getattr(mod, "time", None), types.ModuleType):
                    mod.time = _TimeShim(mod.time)
                if callable(getattr(mod, "monotonic", None)):
                    mod.monotonic = lambda: _VT[0]
        _ACTIVE = self

    def _count_scan(self, fired, fault=False):
        """Measured evidence: checked during-scan (scan-fault) transitions / those whose event (fault) really landed mid-refresh."""
        o = 2 if fault else 0
        self._scan_n[o] += 1
        self._scan_n[o + 1] += 1 if fired else 0
        self._flush_counts()

    def _flush_counts(self):
        if _MEMO_DIR:
            with open(os.path.join(_MEMO_DIR, f"scan.{os.getpid()}.cnt"), "w") as f:
                json.dump(self._scan_n, f)

    def _after_listing(self, path):
        ev = self._armed
        if ev is not None and self._dirkey(path) == self._dirkey(self.p(ev[1])):
            self._armed = None
            self._do_fs(ev)
            self.scan_fired += 1

    def _scandir_fault(self, path):
        """Called by the os shim of xonsh.commands_cache before every os.scandir there."""
        if self._fault is not None and self._dirkey(path) == self._dirkey(self.p(self._fault)):
            self._fault = None
            self.fault_fired += 1
            raise OSError(errno.EMFILE, os.strerror(errno.EMFILE), str(path))

    def cc(self):
        return self.xsh.commands_cache

    def _touch(self, d):
        self.clock += 1
        t = BASE_T + self.clock
        os.utime(self.p(d), (t, t))

    def reset(self):
        for d in ALL_DIRS:
            dp = self.p(d)
            for e in list(os.scandir(dp)):
                if e.is_dir(follow_symlinks=False):
                    os.rmdir(e.path)
                else:
                    os.unlink(e.path)
            os.utime(dp, (BASE_T, BASE_T))
        self.clock = 0
        env = self.xsh.env
        os.chdir(self.p("w"))
        env["PWD"] = self.p("w")
        self.m_cwd = "w"
        self.m_path = list(PATHS[0])
        env["PATH"] = [self.sub(t) for t in self.m_path]
        self.xsh.commands_cache = self.CommandsCache(env, self.xsh.aliases)
        self.hist = []
        self._stash = None
        self._armed = None
        self._fault = None
        self.back = 0
        _VT[0] += 10.0  # a new history starts long after the previous one; inside a history time stands still
        self._lookup()

    def _settle(self, ev):
        """The lookups that follow an event.  After a during-scan event the first one is the
        refresh the event interrupts (its answer may legitimately be old); the second is the next
        complete refresh, from which on every view has to be right."""
        self._lookup()
        if ev[0] == "during-scan":
            if self._armed is not None:  # its directory was not listed: the event simply happens now
                e, self._armed = self._armed, None
                self._do_fs(e)
            self._lookup()
        elif ev[0] == "scan-fault":
            # the lookup above is the one the fault hit (it may raise or answer "not found", not
            # judged); the fault is gone now and the next lookup is an ordinary one
            self._fault = None
            self._lookup()

    def _lookup(self):
        """The lookup every state gets (all cache views start with the same update_cache())."""
        try:
            if self.probe == "completion":
                return self._completion_names()
            return "x" in self.cc()
        except Exception:  # noqa: BLE001 - the checked step reports it
            return None

    def _completion_names(self, cc=None):
        """The completion listing for an empty prefix, through the real completer."""
        from xonsh.completers.commands import complete_command
        from xonsh.parsers.completion_context import CommandContext

        live = self.xsh.commands_cache
        if cc is not None:
            self.xsh.commands_cache = cc
        try:
            return {str(c) for c in complete_command(CommandContext(args=(), arg_index=0, prefix=""))}
        finally:
            self.xsh.commands_cache = live

    # -------------------------------------------------------------- events
    def _do_fs(self, ev):
        k = ev[0]
        if k == "mk":
            d, n, kind = ev[1], ev[2], ev[3]
            path = self.p(d, n)
            if kind in FILE_MODES:
                mode, owner = FILE_MODES[kind]
                shutil.copyfile(self.template, path)
                os.chmod(path, mode)
                if owner is not None:
                    os.chown(path, owner, owner)
            elif kind == "D":
                os.mkdir(path)
            else:
                os.symlink({"LE": self.template, "LX": self.p("t", "none"), "LD": self.p("t", "dir")}[kind], path)
            self._touch(d)
        elif k == "rm":
            path = self.p(ev[1], ev[2])
            if os.path.isdir(path) and not os.path.islink(path):
                os.rmdir(path)
            else:
                os.unlink(path)
            self._touch(ev[1])
        elif k == "chmod":
            os.chmod(self.p(ev[1], ev[2]), 0o755 if ev[3] == "+x" else 0o644)
        else:
            raise AssertionError(ev)

    def apply(self, ev):
        k = ev[0]
        env = self.xsh.env
        if k in ("mk", "rm", "chmod"):
            self._do_fs(ev)
        elif k == "during-scan":
            # the directory changed just before (an unrelated temporary file came and went), so the
            # next refresh re-lists it; the event proper lands in the middle of that refresh
            self._touch(ev[1][1])
            if len(self.hist) in self._plain_scan:
                self._lookup()  # the refresh completes first, the event lands between two lookups
                self._do_fs(ev[1])
            else:
                self._armed = ev[1]
        elif k == "backdated":
            # the content changes and the directory ends up with an OLDER mtime than any seen before
            # (a restore that preserves directory times, a rollback by rename, a clock stepped back)
            self._do_fs(ev[1])
            self.back += 1
            os.utime(self.p(ev[1][1]), (BASE_T - self.back, BASE_T - self.back))
        elif k == "scan-fault":
            # the directory changed (so the next refresh re-lists it) and that one scan fails transiently
            self._touch(ev[1])
            self._fault = ev[1]
        elif k == "path=":
            self.m_path = list(ev[1])
            env["PATH"] = [self.sub(t) for t in ev[1]]
        elif k == "path.append":
            self.m_path.append(ev[1])
            env["PATH"].append(self.sub(ev[1]))
        elif k == "path.insert0":
            self.m_path.insert(0, ev[1])
            env["PATH"].insert(0, self.sub(ev[1]))
        elif k == "path.remove":
            self.m_path.remove(ev[1])
            env["PATH"].remove(self.sub(ev[1]))
        elif k == "cd":
            tgt = self.R if ev[1] == "R" else self.p(ev[1])
            os.chdir(tgt)
            env["PWD"] = tgt
            self.m_cwd = ev[1]
        else:
            raise AssertionError(ev)
        self.hist.append(ev)

    def kind_at(self, path):
        """Classification of a directory entry from the real file system."""
        try:
            st = os.lstat(path)
        except OSError:
            return None
        import stat as S

        if S.S_ISLNK(st.st_mode):
            try:
                t = os.stat(path)
            except OSError:
                return "LX"
            return "LD" if S.S_ISDIR(t.st_mode) else ("LE" if t.st_mode & 0o111 else "LN")
        if S.S_ISDIR(st.st_mode):
            return "D"
        mode = st.st_mode & 0o777
        owner = None if st.st_uid == os.getuid() else st.st_uid
        for k, v in FILE_MODES.items():
            if v == (mode, owner):
                return k
        return f"F{mode:o}:{st.st_uid}"

    def fs_state(self):
        out = {}
        for d in ALL_DIRS:
            ent = {}
            for n in sorted(os.listdir(self.p(d))):
                ent[n] = self.kind_at(self.p(d, n))
            out[d] = ent
        return out

    def state(self):
        return {"PATH": list(self.m_path), "cwd": self.m_cwd, "fs": self.fs_state()}

    def canon(self):
        if self._stash is not None:
            return self._stash
        cc = self.cc()
        digest = []
        for n in NAMES:
            try:
                s = self._sel(cc.lazy_locate_binary(n))
            except Exception as e:  # noqa: BLE001
                s = {"entry": f"raised {type(e).__name__}"}
            digest.append(None if s is None else s["entry"])
        envp = [self.rel(x) for x in self.xsh.env["PATH"]]
        return {"state": self.state(), "cache": digest, "envPATH": envp if envp != self.m_path else "=", "osdir": self.rel(os.getcwd()) if os.getcwd() != (self.R if self.m_cwd == "R" else self.p(self.m_cwd)) else "="}

    def menu(self):
        cfg = self.cfg
        fs = self.fs_state()
        out = []
        for (d, n), kinds in cfg["kinds"].items():
            cur = fs[d].get(n)
            if cur is None:
                for k in kinds.split():
                    if k in NOT_FOR_US and not self.foreign_ok:
                        continue  # permission bits do not bind here (recorded in the evidence)
                    out.append(["mk", d, n, k])
            else:
                out.append(["rm", d, n])
                if cur == "N":
                    out.append(["chmod", d, n, "+x"])
                elif cur == "E":
                    out.append(["chmod", d, n, "-x"])
        cwd = os.getcwd()
        on_path = {self._dirkey(os.path.join(cwd, self.sub(ent))) for ent in self.m_path}
        for d, n in cfg.get("scan", ()):
            if self._dirkey(self.p(d)) not in on_path:
                continue  # never listed: same as the plain event
            cur = fs[d].get(n)
            if cur is None:
                out.append(["during-scan", ["mk", d, n, "E"]])
            else:
                out.append(["during-scan", ["rm", d, n]])
                if cur == "N":
                    out.append(["during-scan", ["chmod", d, n, "+x"]])
                elif cur == "E":
                    out.append(["during-scan", ["chmod", d, n, "-x"]])
        for d, n in cfg.get("scan", ()):
            if self._dirkey(self.p(d)) in on_path:
                out.append(["backdated", ["mk", d, n, "E"] if fs[d].get(n) is None else ["rm", d, n]])
        for d in cfg.get("fault", ()):
            if self._dirkey(self.p(d)) in on_path:
                out.append(["scan-fault", d])
        for i in cfg["paths"]:
            if PATHS[i] != self.m_path:
                out.append(["path=", list(PATHS[i])])
        for ev in cfg["inplace"]:
            if ev[0] == "path.remove":
                if ev[1] in self.m_path:
                    out.append(list(ev))
            elif len(self.m_path) < MAX_PATH_LEN:
                out.append(list(ev))
        for t in cfg["cd"]:
            if t != self.m_cwd:
                out.append(["cd", t])
        return out

    # -------------------------------------------------------------- reference (from the statement)
    def ref(self, name):
        """POSIX search: a name with a separator is that path only (relative to cwd); a bare name is
        the first $PATH entry (empty = cwd, relative = relative to cwd) that holds a regular file
        (symlinks followed) of that name with execute permission; never cwd unless it is on $PATH."""
        cwd = os.getcwd()

        def ok(p):
            return os.path.isfile(p) and os.access(p, os.X_OK)

        if "/" in name:
            p = os.path.join(cwd, name)
            return (None, p) if ok(p) else None
        for i, ent in enumerate(self.sub(t) for t in self.m_path):
            p = os.path.join(cwd, ent, name)
            if ok(p):
                return (i, p)
        return None

    def _dirkey(self, d):
        try:
            st = os.stat(d)
        except OSError:
            return None
        return (st.st_dev, st.st_ino)

    def _sel(self, p):
        """Identity of the directory entry a returned path selects (spelling-independent)."""
        if p is None:
            return None
        p = str(p)
        ap = p if os.path.isabs(p) else os.path.join(os.getcwd(), p)
        d, b = os.path.split(ap)
        dk = self._dirkey(d)
        try:
            st = os.stat(ap)
            fid = (st.st_dev, st.st_ino)
        except OSError:
            fid = None
        idx = None
        if dk is not None:
            for i, ent in enumerate(self.m_path):
                if self._dirkey(os.path.join(os.getcwd(), self.sub(ent))) == dk:
                    idx = i
                    break
        did = self.dirids.get(dk)
        entry = f"{did}/{b}" if did is not None else "?" + self.rel(ap)
        return {"entry": entry, "dk": dk, "fid": fid, "idx": idx, "kind": self.kind_at(ap), "path": ap}

    @staticmethod
    def _same(a, b):
        if a is None or b is None:
            return a is None and b is None
        return a["dk"] == b["dk"] and a["entry"] == b["entry"] and a["fid"] == b["fid"]

    @staticmethod
    def _show(s):
        if s is None:
            return None
        return {"entry": s["entry"], "PATH_index": s["idx"], "is": KIND_NAMES.get(s["kind"], s["kind"] or "absent")}

    def expected(self, name):
        r = self.ref(self.sub(name))
        return None if r is None else self._sel(r[1])

    # reference cross-check -------------------------------------------------------------
    def _crosscheck(self):
        """-> {lookup name: bool ambiguous} for the current state (memoised per distinct state)."""
        st = self.state()
        key = common.short_hash(st)
        hit = self._memo.get(key)
        if hit is not None:
            return hit
        fn = os.path.join(_MEMO_DIR, key + ".json") if _MEMO_DIR else None
        if fn and os.path.exists(fn):
            try:
                with open(fn) as f:
                    rec = json.load(f)
                self._memo[key] = rec["amb"]
                return rec["amb"]
            except (OSError, ValueError):
                pass
        rec = self._crosscheck_now()
        rec["state"] = st
        if fn:
            tmp = fn + f".{os.getpid()}"
            with open(tmp, "w") as f:
                json.dump(rec, f)
            os.replace(tmp, fn)
        self._memo[key] = rec["amb"]
        return rec["amb"]

    def _crosscheck_now(self):
        cwd = os.getcwd()
        pathstr = os.pathsep.join(self.sub(t) for t in self.m_path)
        names = [self.sub(n) for n in LOOKUPS]
        # no command substitutions: only a name that resolves costs a fork
        script = "".join(f"echo; echo C=; command -v {n}; echo; echo X=; {n} /proc/self/exe; " for n in names)
        r = subprocess.run(["/bin/sh", "-c", script], env={"PATH": pathstr}, cwd=cwd, stdout=subprocess.PIPE, stderr=subprocess.DEVNULL, timeout=60)
        toks = [ln for ln in r.stdout.decode().split("\n") if ln]
        lines = []
        i = 0
        for _n in names:
            for tag in ("C=", "X="):
                if i >= len(toks) or toks[i] != tag:
                    raise common.ToolError(f"unexpected /bin/sh reference output {r.stdout!r}")
                i += 1
                if i < len(toks) and toks[i] not in ("C=", "X="):
                    lines.append(tag + toks[i])
                    i += 1
                else:
                    lines.append(tag)
        if i != len(toks):
            raise common.ToolError(f"unexpected /bin/sh reference output {r.stdout!r}")
        amb, detail = {}, {}
        for i, (lk, n) in enumerate(zip(LOOKUPS, names)):
            cv = lines[2 * i][2:] or None
            ran = lines[2 * i + 1][2:] or None
            mine = self.ref(n)
            msel = None if mine is None else self._sel(mine[1])
            wh = shutil.which(n, path=pathstr)
            ok = self._same(msel, self._sel(wh))
            if "/" not in n:
                ok = ok and self._same(msel, self._sel(cv))
            ok = ok and ran == (None if mine is None else os.path.realpath(mine[1]))
            amb[lk] = not ok
            detail[lk] = {"ref": self.rel(mine[1]) if mine else None, "which": self.rel(wh), "sh_command_v": self.rel(cv), "sh_ran": self.rel(ran)}
        return {"amb": amb, "detail": detail}

    # -------------------------------------------------------------- views of the implementation
    def view(self, view, name, cc=None):
        """One view of the implementation; an exception other than the documented XonshError is an answer too."""
        try:
            return self._view(view, name, cc)
        except Exception as e:  # noqa: BLE001 - reported as a violation of the view, never a tool error
            return Raised(type(e).__name__)

    def _view(self, view, name, cc=None):
        name = self.sub(name)
        cc = cc if cc is not None else self.cc()
        if view == "locate-executable":
            return self.locate_executable(name)
        if view == "cache-locate":
            return cc.locate_binary(name)
        if view == "cache-contains":
            return name in cc
        if view == "cache-iter":
            return name in set(iter(cc))
        if view == "completion-listing":
            return name in self._completion_names(cc if cc is not self.cc() else None)
        if view == "spec":
            try:
                with contextlib.redirect_stderr(io.StringIO()):
                    return self.SubprocSpec.build([name]).binary_loc
            except self.XonshError:
                return None  # "permission denied" for an explicit non-executable path: resolves to nothing
        raise AssertionError(view)

    def spawn(self, name):
        """Really run `name /proc/self/exe` (the test executables are copies of readlink) -> the file executed."""
        name = self.sub(name)
        err = io.StringIO()
        try:
            with contextlib.redirect_stderr(err):
                out = self.xsh.subproc_captured_stdout([name, "/proc/self/exe"])
        except Exception as e:  # noqa: BLE001 - command not found / permission denied
            return None, f"{type(e).__name__}"
        out = (out or "").strip()
        return (out or None), ""

    def _cmp(self, view, name, raw, exp):
        """-> None when the view agrees with the reference, else (kind, observed-json, sel)."""
        if isinstance(raw, Raised):
            return (f"raised-{raw}", f"raised {raw}", None)
        if view in BOOL_VIEWS:
            want = exp is not None
            if bool(raw) == want:
                return None
            return ("present" if raw else "missing", bool(raw), None)
        obs = self._sel(raw)
        if self._same(obs, exp):
            return None
        kind = "missing" if obs is None else ("present" if exp is None else "wrong-file")
        return (kind, self._show(obs), obs)

    def mismatches(self):
        """All disagreements between a view and the reference on the current state."""
        # the completion listing is probed FIRST (before any view that refreshes the shared table)
        try:
            comp = self._completion_names()
        except Exception as e:  # noqa: BLE001
            comp = Raised(type(e).__name__)
        amb = self._crosscheck()
        out = {}
        for name in LOOKUPS:
            if amb[name]:
                continue
            exp = self.expected(name)
            iter_raw = None
            for view in SEL_VIEWS + BOOL_VIEWS:
                if view in ("cache-iter", "completion-listing") and "/" in name:
                    continue
                if view == "completion-listing":
                    raw = comp if isinstance(comp, Raised) else (name in comp)
                    if raw == iter_raw:
                        continue  # the completer shows what iteration of the cache shows: judged there
                else:
                    raw = self.view(view, name)
                if view == "cache-iter":
                    iter_raw = raw
                c = self._cmp(view, name, raw, exp)
                if c is not None:
                    out[(view, name)] = {"kind": c[0], "obs": c[1], "sel": c[2], "exp": exp, "sig": common.jdump([c[0], c[1] if c[2] is None else c[2]["entry"] + ":" + str(c[2]["kind"]), exp and exp["entry"]])}
        return out

    def _obsclass(self, name, sel, exp):
        """What the wrongly selected entry is, relative to the state."""
        if sel is None:
            return "nothing"
        what = KIND_NAMES.get(sel["kind"], sel["kind"] or "absent")
        if sel["kind"] in NOT_FOR_US or str(sel["kind"]).startswith("F"):
            what = "nonexec"  # a regular file this process may not execute, whatever its mode bits say
        if "/" in name:
            named = self._sel(os.path.join(os.getcwd(), self.sub(name)))
            where = "the-named-path" if named and named["dk"] == sel["dk"] and named["entry"] == sel["entry"] else "another-path"
        elif sel["idx"] is None:
            where = "cwd-not-on-PATH" if sel["dk"] == self._dirkey(os.getcwd()) else "dir-not-on-PATH"
        elif exp is not None and exp["idx"] is not None:
            where = "later-PATH-entry" if sel["idx"] > exp["idx"] else ("earlier-PATH-entry" if sel["idx"] < exp["idx"] else "same-PATH-entry")
        else:
            where = "on-PATH"
        return f"{what}@{where}"

    def _heals(self, hist, i, view, name):
        """Replay the history with a brand-new CommandsCache installed right after event i (before
        the lookup on that state): is the view right at the end?"""
        self.reset()
        for j, e in enumerate(hist):
            self.apply(e)
            if j == i and e[0] not in ("during-scan", "scan-fault"):
                self.xsh.commands_cache = self.CommandsCache(self.xsh.env, self.xsh.aliases)
            self._settle(e)
            if j == i and e[0] in ("during-scan", "scan-fault"):  # "after the event" = after the refresh it hit
                self.xsh.commands_cache = self.CommandsCache(self.xsh.env, self.xsh.aliases)
                self._lookup()
        return self._cmp(view, name, self.view(view, name), self.expected(name)) is None

    def _timing_matters(self, hist, i, view, name):
        """Repair transform for a blamed during-scan event: does the view become right when the same
        event lands between two complete refreshes instead of in the middle of one?"""
        self._plain_scan = {i}
        try:
            self.reset()
            for e in hist:
                self.apply(e)
                self._settle(e)
            return self._cmp(view, name, self.view(view, name), self.expected(name)) is None
        finally:
            self._plain_scan = set()

    def _classify(self, found):
        """found: {(view, name): mismatch} (new on this state) -> violation dicts.  May clobber the
        implementation state (repair replays); the caller stashes canon()."""
        hist = list(self.hist)
        st = self.state()
        viols = []
        stale = []
        for (view, name), mm in found.items():
            nc = nameclass(name)
            case = {"view": view, "name": name, "alphabet": self.level, "state": st}
            if view == "cache-contains" and "/" in name and mm["obs"] == self.view("cache-contains", os.path.basename(name)):
                # repair transform: the answer is exactly the answer for the bare basename (fresh or stale alike)
                viols.append(
                    {
                        "key": "cache-contains:logic:explicit-name-decided-by-basename",
                        "clause": "explicit path refers only to that path",
                        "case": case,
                        "observed": mm["obs"],
                        "expected": mm["exp"] is not None,
                        "note": f"`{name!r} in commands_cache` equals `{os.path.basename(name)!r} in commands_cache`; the named path itself is "
                        + ("an executable file" if mm["exp"] is not None else "not an executable file"),
                    }
                )
                continue
            if view in CACHE_VIEWS:
                fresh = self.view(view, name, cc=self.CommandsCache(self.xsh.env, self.xsh.aliases))
                c = self._cmp(view, name, fresh, mm["exp"])
                if c is None:
                    stale.append((view, name, mm, case))
                    continue
                kind, obs, sel = c
                note = f"a brand-new CommandsCache gives the same kind of wrong answer; the live cache answered {mm['obs']}"
            else:
                kind, obs, sel = mm["kind"], mm["obs"], mm["sel"]
                note = ""
            oc = self._obsclass(name, sel, mm["exp"]) if view in SEL_VIEWS else ("basename-on-PATH" if kind == "present" and "/" in name else "-")
            viols.append(
                {
                    "key": f"{view}:logic:{kind}:{nc}:{oc}",
                    "clause": "explicit path refers only to that path" if "/" in name else "bare name = first executable regular file along $PATH, never cwd",
                    "case": case,
                    "observed": obs,
                    "expected": self._show(mm["exp"]) if view in SEL_VIEWS else (mm["exp"] is not None),
                    "note": note,
                }
            )
        # Stale views: blame the event the cache failed to notice = the earliest event E such that
        # installing a brand-new cache right after E (and after every later event) heals the view.
        for view, name, mm, case in stale:
            # missing = the view does not see the entry the file system has; present = the entry the
            # view reports is not (any more) an executable reachable through $PATH
            sel = mm["sel"]
            if view in BOOL_VIEWS:
                kind = mm["kind"]
            elif sel is None or (mm["exp"] is not None and sel["idx"] is not None and sel["kind"] in ("E", "LE")):
                kind = "missing"
            else:
                kind = "present"
            i = len(hist) - 1
            while i > 0 and self._heals(hist, i - 1, view, name):
                i -= 1
            blamed = eclass(hist[i]) if hist else "initial"
            if hist and hist[i][0] == "during-scan" and not self._timing_matters(hist, i, view, name):
                blamed = eclass(hist[i][1])  # just as stale when the event happens between two lookups
            case["blamed_event_index"] = i
            case["blamed_event"] = hist[i] if hist else None
            viols.append(
                {
                    "key": f"{view}:stale-after-{blamed}" + ("" if "/" not in name else ":explicit"),
                    "clause": "every view agrees with the file system now (no staleness)",
                    "case": case,
                    "observed": mm["obs"],
                    "expected": self._show(mm["exp"]) if view in SEL_VIEWS else (mm["exp"] is not None),
                    "note": f"{kind}: a brand-new CommandsCache on the same state answers correctly, and so does the live one when it is renewed right after the blamed event "
                    f"(#{i}: {evkind(hist[i]) if hist else 'initial'}) but not when it is renewed just before it",
                }
            )
        return viols

    # -------------------------------------------------------------- listings consumed across a refresh
    def _iterables(self):
        """Every way xonsh hands out the command listing lazily: name -> (factory, item -> command name)."""
        from xonsh.completers.commands import complete_command
        from xonsh.parsers.completion_context import CommandContext

        cc = self.cc()
        return {
            "iter(cache)": (lambda: iter(cc), str),
            "iter_commands()": (lambda: iter(cc.iter_commands()), lambda it: it[0]),
            "all_commands": (lambda: iter(cc.all_commands), str),
            "lazyiter()": (lambda: cc.lazyiter(), str),
            "complete_command": (lambda: complete_command(CommandContext(args=(), arg_index=0, prefix="")), str),
        }

    def _listing(self):
        try:
            return set(iter(self.cc()))
        except Exception:  # noqa: BLE001 - judged by the cache-iter view
            return set()

    def _iter_begin(self):
        """Start each lazy listing on the state before the event and consume k = 0 / 1 items."""
        before = self._listing()
        out = []
        for vname, (factory, nameof) in self._iterables().items():
            for k in (0, 1):
                rec = {"view": vname, "k": k, "seen": [], "before": before, "it": None, "nameof": nameof, "err": None}
                try:
                    rec["it"] = factory()
                    for _ in range(k):
                        rec["seen"].append(nameof(next(rec["it"])))
                except StopIteration:
                    pass
                except Exception as e:  # noqa: BLE001
                    rec["err"] = f"{type(e).__name__}: {e}"
                out.append(rec)
        return out

    def _iter_finish(self, its):
        """Resume the half-consumed listings after the event and the refresh it caused: they must not
        raise, and must deliver every command the complete listing shows both before and after."""
        after = self._listing()
        st = None
        viols = []
        for rec in its:
            if rec["err"] is None and rec["it"] is not None:
                try:
                    for item in rec["it"]:
                        rec["seen"].append(rec["nameof"](item))
                except Exception as e:  # noqa: BLE001
                    rec["err"] = f"{type(e).__name__}: {e}"
            self._scan_n[4] += 1
            if rec["k"] == 1 and rec["seen"] and rec["before"] != after:
                self._scan_n[5] += 1  # really half consumed, and the refresh changed the table
            must = sorted(rec["before"] & after)
            missed = sorted(set(must) - set(rec["seen"]))
            if rec["err"] is None and not missed:
                continue
            st = st or self.state()
            sig = "raised-" + rec["err"].split(":")[0] if rec["err"] else "missed-command"
            viols.append(
                {
                    "key": f"iter-resumed:{rec['view']}:{sig}",
                    "clause": "a listing that is being consumed stays valid across a refresh (never raises, shows every command present before and after)",
                    "case": {"view": rec["view"], "consumed_before_event": rec["k"], "alphabet": self.level, "state": st},
                    "observed": {"seen": rec["seen"], "error": rec["err"]},
                    "expected": {"no_exception": True, "must_contain": must},
                    "note": f"complete listing before the event {sorted(rec['before'])}, after {sorted(after)}",
                }
            )
        self._flush_counts()
        return viols

    # -------------------------------------------------------------- transition
    def step(self, ev, check):
        if not check:
            self.apply(ev)
            self._settle(ev)
            return []
        hk = common.jdump(self.hist)
        if self._pre[0] == hk:
            pre = self._pre[1]
        else:
            pre = {k: v["sig"] for k, v in self.mismatches().items()}
            self._pre = (hk, pre)
        f0, g0 = self.scan_fired, self.fault_fired
        its = self._iter_begin()
        self.apply(ev)
        self._settle(ev)
        if ev[0] == "during-scan":
            self._count_scan(self.scan_fired - f0)
        elif ev[0] == "scan-fault":
            self._count_scan(self.fault_fired - g0, fault=True)
        post = self.mismatches()  # first: nothing else may refresh the table before the first view is probed
        viols = self._iter_finish(its)
        envp = [self.rel(x) for x in self.xsh.env["PATH"]]
        if envp != self.m_path:
            viols.append(
                {
                    "key": f"envpath:edit-not-applied:{evkind(ev)}",
                    "clause": "$PATH edits take effect",
                    "case": {"alphabet": self.level, "state": self.state()},
                    "observed": envp,
                    "expected": list(self.m_path),
                }
            )
        new = {k: v for k, v in post.items() if pre.get(k) != v["sig"]}
        if new:
            stash = self.canon()
            viols += self._classify(new)
            self._stash = stash  # the repair replays clobbered the implementation state
        for v in viols:
            v["case"]["at"] = "step"
        return viols

    # -------------------------------------------------------------- per-state observers
    def observe(self):
        viols = []
        if not self.hist:
            found = self.mismatches()
            if found:
                viols += self._classify(found)
                self.reset()
        amb = self._crosscheck()
        st = self.state()
        for name in SPAWN_LOOKUPS:
            if amb[name]:
                continue
            r = self.ref(self.sub(name))
            want = None if r is None else os.path.realpath(r[1])
            got, why = self.spawn(name)
            if got != want:
                kind = "missing" if got is None else ("present" if want is None else "wrong-file")
                viols.append(
                    {
                        "key": f"spawn:logic:{kind}:{nameclass(name)}",
                        "clause": "a spawned command runs the file the POSIX search selects",
                        "case": {"view": "spawn", "name": name, "alphabet": self.level, "state": st},
                        "observed": self.rel(got),
                        "expected": self.rel(want),
                        "note": why,
                    }
                )
        for v in viols:
            v["case"]["at"] = "observe"
        return viols


_LEVEL = "mid"


def _factory():
    return Harness(_LEVEL)


def _phase(ctx, level, d0, dmax, deadline):
    """Iterative deepening d0..dmax of one alphabet; a deeper level is only started when its
    estimated cost (frontier x alphabet at the measured rate) fits before `deadline` (seconds
    since the start of the run).  The depth claimed is the depth completed."""
    global _LEVEL
    _LEVEL = level
    best, capped = None, None
    for d in range(d0, dmax + 1):
        for fn in os.listdir(_MEMO_DIR):
            if fn.startswith("scan."):
                os.unlink(os.path.join(_MEMO_DIR, fn))
        t = time.time()
        r = seqx.bfs(_factory, d, ctx, budget_s=None, chunk=2)
        r["scan"] = [0, 0, 0, 0, 0, 0]
        for fn in os.listdir(_MEMO_DIR):
            if fn.startswith("scan."):
                with open(os.path.join(_MEMO_DIR, fn)) as f:
                    got = json.load(f)
                r["scan"] = [x + y for x, y in zip(r["scan"], got)]
        dt = max(time.time() - t, 1e-3)
        h = seqx._H
        h.reset()
        r["alphabet"] = len(h.menu())
        r["caps_ok"] = h.caps_ok
        r["foreign_ok"] = h.foreign_ok and h.bset_ok
        best = r
        if d == dmax or not r["level_sizes"] or r["level_sizes"][-1] == 0:
            break
        est = dt + r["level_sizes"][-1] * r["alphabet"] / (r["transitions"] / dt)
        if time.time() - ctx.t0 + est > deadline:
            capped = f"depth {d + 1} not started: estimated {est:.0f}s would pass the {deadline}s deadline"
            ctx.log(f"alphabet {level}: {capped}")
            break
    best["level"] = level
    best["depth_requested"] = dmax
    best["capped"] = best["capped"] or capped
    best["exhaustive"] = best["capped"] is None
    return best


def run(ctx):
    global _MEMO_DIR
    _MEMO_DIR = common.scratch_dir("c08memo")
    if ctx.thorough:
        plan = [("mid", 3, 4), ("full", 2, 3), ("core", 5, 5), ("mid+completion", 2, 3)]
        deadline = 720
    else:
        plan = [("quick", 3, 3), ("quick+completion", 2, 2)]
        deadline = 50
    # schedule part first (a refresh in one thread while another thread queries the cache, pysched):
    # every execution starts with a gc.collect(), which must not have to walk the BFS results
    from . import c08_sched

    sched = c08_sched.run_part(ctx)
    phases = []
    for level, d0, dmax in plan:
        ctx.log(f"phase alphabet={level} depth {d0}..{dmax}")
        phases.append(_phase(ctx, level, d0, dmax, deadline))
    n_states, n_amb, amb_samples = 0, 0, []
    for fn in sorted(os.listdir(_MEMO_DIR)):
        if not fn.endswith(".json"):
            continue
        with open(os.path.join(_MEMO_DIR, fn)) as f:
            rec = json.load(f)
        n_states += 1
        a = [k for k, v in rec["amb"].items() if v]
        n_amb += len(a)
        if a and len(amb_samples) < 3:
            amb_samples.append({"state": rec["state"], "ambiguous_names": a, "references": {k: rec["detail"][k] for k in a}})
    for ph in phases:
        ctx.add_violations(ph["violations"])
        for s in ph["sample_histories"][:3]:
            ctx.sample({"alphabet": ph["level"], "history": s})
    for s in amb_samples[:2]:
        ctx.sample({"ambiguous_state_skipped": s})
    if not all(ph["foreign_ok"] for ph in phases):
        ctx.assumptions.append("capset / PR_CAPBSET_DROP / chown refused: the file kinds 'has execute bits, but not for this process' (foreign owner 0700/0070, own file 0655) were NOT explored or are counted as ambiguous")
    if not all(ph["caps_ok"] for ph in phases):
        ctx.assumptions.append("capset refused: permission bits may not bind in this run")
    ctx.coverage.update(
        states=sum(ph["states"] for ph in phases),
        transitions=sum(ph["transitions"] for ph in phases),
        traces_validated_against_impl=sum(ph["transitions"] for ph in phases),
        depth_completed=max(ph["depth_completed"] for ph in phases),
        depth_completed_by_alphabet={ph["level"]: ph["depth_completed"] for ph in phases},
        depth_requested={ph["level"]: ph["depth_requested"] for ph in phases},
        exhaustive=all(ph["exhaustive"] for ph in phases) and sched["exhaustive"],
        caps_hit=([f"{ph['level']}: {ph['capped']}" for ph in phases if ph["capped"]] + ([f"sched: {sched['capped']}"] if sched["capped"] else [])) or None,
        phases=[{k: ph[k] for k in ("level", "alphabet", "depth_requested", "depth_completed", "states", "transitions", "level_sizes", "capped")} for ph in phases],
        during_scan_transitions=sum(ph["scan"][0] for ph in phases),
        during_scan_events_landed_mid_refresh=sum(ph["scan"][1] for ph in phases),
        scan_fault_transitions=sum(ph["scan"][2] for ph in phases),
        scan_faults_raised_inside_a_refresh=sum(ph["scan"][3] for ph in phases),
        listings_resumed_across_an_event=sum(ph["scan"][4] for ph in phases),
        listings_half_consumed_and_table_changed=sum(ph["scan"][5] for ph in phases),
        not_executable_for_us_kinds_explored=all(ph["foreign_ok"] for ph in phases),
        sched_schedules=sched["executions"],
        sched_steps=sched["steps"],
        sched_preemption_bound=sched["preemption_bound"],
        sched_schedules_per_program=sched["schedules_per_program"],
        sched_exhaustive=sched["exhaustive"],
        lookups_per_state=len(LOOKUPS),
        views_per_lookup=len(SEL_VIEWS) + len(BOOL_VIEWS),
        distinct_fs_path_cwd_states_all_phases=n_states,
        reference_crosschecked_states=n_states,
        ambiguous_state_name_pairs_skipped=n_amb,
        permission_bits_bind=all(ph["caps_ok"] for ph in phases),
        explanation="every transition executes the real locate_executable / CommandsCache / SubprocSpec.build on a real directory tree after a real create/delete/chmod/$PATH-edit/cd; "
        "states are canonical ($PATH entries, cwd, per-directory {name: kind}, what the cache currently answers for x and y); the reference search is cross-checked against "
        "shutil.which and /bin/sh (command -v + real execution) once per distinct state; a real spawn through run_subproc is compared on every expanded state; "
        "`states`/`transitions` are summed over the alphabets (phases), whose state spaces overlap - the number of distinct ($PATH, cwd, fs) states over all phases is given separately",
    )
    ctx.assumptions += [
        "directory mtimes advance by 1 s per create/delete (operations further apart than the file system's timestamp granularity); chmod leaves the directory mtime alone (real behaviour)",
        "a lookup happens on every state (the cache is refreshed after every event); histories with unobserved intermediate states are not explored separately",
        "during-scan events interrupt the refresh right after the listing of the event's own directory (the only interleaving point the listing seam offers per directory); the interrupted lookup's own answer is not judged",
        "scan-fault events fail exactly one os.scandir call of xonsh.commands_cache with EMFILE; the failing lookup itself is not judged",
        "(state, name) pairs on which /bin/sh, shutil.which and the reference search disagree (e.g. a lone empty $PATH) are skipped and counted",
        "test executables are ELF copies of readlink, so SubprocSpec keeps binary_loc on the file itself (no shebang rewriting)",
    ]


def replay(rec):
    global _MEMO_DIR
    _MEMO_DIR = None
    case = rec["case"]
    if "program" in case:
        from . import c08_sched

        return c08_sched.replay_part(rec)
    h = Harness("full")
    h.reset()
    hist = case.get("history") or []
    at = case.get("at", "step")
    pre_events = hist[:-1] if at == "step" and hist else hist
    for ev in pre_events:
        h.step(ev, False)
    print("history:", json.dumps(hist))
    if at == "step" and hist:
        print("state before last event:", json.dumps(h.state()))
        vs = h.step(hist[-1], True)
    else:
        print("state:", json.dumps(h.state()))
        vs = h.observe()
    hit = [v for v in vs if v["key"] == rec["key"]]
    for v in vs:
        mark = "VIOLATION" if v["key"] == rec["key"] else "also"
        print(mark, v["key"], "| view", v["case"].get("view"), "name", v["case"].get("name"), "| observed=", v["observed"], "expected=", v["expected"], "|", v.get("note", ""))
    if not hit:
        print("not reproduced: recorded key", rec["key"])
    return 1 if hit else 0
