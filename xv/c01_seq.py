"""C01, sequence layer: lexer / tokenizer state carried across statements.

The tokenizer and the lexer keep state between physical lines (continuation flags, the indentation
stack, bracket depth, pending string prefixes).  Single-statement programs start from the initial
state only, so every ordered sequence of these lexically stateful statements is parsed as ONE program:
what one construct leaves behind meets every other construct."""

import itertools

LEX_SNIPPETS = [
    "a = 'x\\\ny'\n",  # single-quoted string continued with backslash-newline
    'a = "x\\\ny\\\nz"\n',
    "a = '''x\ny'''\n",  # triple-quoted, 2 and 3 physical lines
    "a = '''x\ny\nz'''\n",
    'a = """x\n\ny\n"""\n',
    "a = b'''x\ny\nz'''\n",
    "a = r'''x\\\ny\nz'''\n",
    "a = f'''x\n{b}\nz'''\n",
    "a = f'{b!r:>{c}}' 'd'\n",
    "a = ('x'\n     'y')\n",
    "a = [\n    b,\n]\n",
    "a = b + \\\n    c\n",
    "a = {\n    'k': '''v\nw\nx''',\n}\n",
    "if a:\n    b\n",
    "if a:\n    b\nelse:\n    c\n",
    "if a:\n\tb\n",
    "if a:\n    if b:\n        c\n",
    "def f():\n    '''d\n    e\n    f'''\n",
    "def f(a,\n      b):\n    return a\n",
    "class C:\n    def m(self):\n        pass\n",
    "# comment\n",
    "\n",
    "a = 1  # c\n",
    "a = b; c = d\n",
    "@d\ndef f(): pass\n",
    "for a in b:\n    continue\n",
    "try:\n    a\nexcept b:\n    c\n",
    "with a as b:\n    c\n",
    "match a:\n    case 1:\n        b\n",
    "a = 1 if b else \\\n    2\n",
    "async def f():\n    await a\n",
    "a = (b :=\n     c)\n",
    "a = 0x1f + 1_0 + 1e3 + 2j\n",
    "a = b'x' + rb'\\y'\n",
]


def sequences(thorough):
    out = []
    n = len(LEX_SNIPPETS)
    for k in (2, 3) if thorough else (2,):
        for combo in itertools.product(range(n), repeat=k):
            out.append("".join(LEX_SNIPPETS[i] for i in combo))
    return out
