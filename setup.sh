#!/bin/bash
# Offline setup: parser tables from /repo's working tree + the C puppet helper.
here="$(cd "$(dirname "$0")" && pwd)"
cd "$here" || exit 2
mkdir -p .build evidence out
export PYTHONPATH="/repo:$here" XV_REPO=/repo PYTHONDONTWRITEBYTECODE=1 PYTHONHASHSEED=0
/venv/bin/python -B -m xv.tables || exit 1
if [ -f xv/puppet.c ]; then gcc -O1 -o .build/puppet xv/puppet.c || exit 1; fi
echo setup ok
