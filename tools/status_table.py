#!/usr/bin/env python3
"""Per-property status rows from the committed evidence files and known_findings.json."""
import json, os
V = os.path.dirname(os.path.dirname(os.path.abspath(__file__)))
kf = json.load(open(os.path.join(V, "known_findings.json")))
m = json.load(open(os.path.join(V, "MANIFEST.json")))
print("| Id | Level | Tier of the committed evidence | Covered (from the evidence file) | Exhaustive within bounds | Known findings matched in that run / open in the file | `fix:` commits recorded |")
print("|---|---|---|---|---|---|---|")
for c in m["checks"]:
    pid = c["property_id"]
    try:
        e = json.load(open(os.path.join(V, "evidence", pid + ".json")))
    except Exception:
        continue
    cov = e.get("coverage", {})
    parts = []
    for k in ("states", "transitions", "traces_validated_against_impl", "evaluations", "distinct_nontrivial", "fault_cases", "depth_completed", "preemption_bound", "alphabet"):
        if k in cov and isinstance(cov[k], (int, float)):
            parts.append(f"{k}={cov[k]:,}" if isinstance(cov[k], int) else f"{k}={cov[k]}")
    openk = sum(1 for x in kf if x["property"] == pid and x["status"] == "open")
    fixed = [x["commit"] for x in kf if x["property"] == pid and x["status"] == "fixed"]
    matched = len(cov.get("known_findings_matched", []))
    print(f"| {pid} | {c['level_claimed']['category']} | {e.get('tier')} ({e.get('wall_s', '?')} s) | {'; '.join(parts)} | {cov.get('exhaustive')}{' (' + cov.get('caps_hit') + ')' if isinstance(cov.get('caps_hit'), str) else ''} | {matched} / {openk} | {', '.join('`' + f + '`' for f in fixed) or '–'} |")
