#!/usr/bin/env python3
"""Refresh the generated block(s) of DESIGN.md (the seeded-change table)."""
import os, subprocess
V = os.path.dirname(os.path.dirname(os.path.abspath(__file__)))
p = os.path.join(V, "DESIGN.md")
s = open(p).read()
tab = subprocess.check_output(["/venv/bin/python", os.path.join(V, "tools", "seeded_table.py")], text=True)
rows = [l for l in tab.splitlines() if l.startswith("| C")]
caught = sum("**caught**" in l for l in rows)
import glob, json
waves = {}
for mf in sorted(glob.glob(os.path.join(V, "seeded", "*", "meta.json"))):
    m = json.load(open(mf))
    n = int(m["name"].split("-")[1].rstrip("b"))
    w = (n + 1) // 2
    hist = [e.get("detected") for e in m.get("earlier_runs", [])]
    first = hist[0] if hist else m.get("detected")
    d = waves.setdefault(w, [0, 0, 0])
    d[0] += 1
    d[1] += bool(first)
    d[2] += bool(m.get("detected"))
wave_txt = "; ".join(f"wave {w}: {d[0]} changes, {d[1]} reported by the checks as they stood when the change arrived, {d[2]} now" for w, d in sorted(waves.items()))
head = f"Per wave - {wave_txt}.\n\n{len(rows)} changes kept; {caught} reported by the registered checks as they stand now, {len(rows) - caught} not (see the rows marked *missed*).\n\n"
a = s.index("<!-- SEEDED-TABLE-BEGIN -->") + len("<!-- SEEDED-TABLE-BEGIN -->")
b = s.index("<!-- SEEDED-TABLE-END -->")
s = s[:a] + "\n" + head + tab + "\n" + s[b:]
st = subprocess.check_output(["python3", os.path.join(V, "tools", "status_table.py")], text=True)
a = s.index("<!-- STATUS-TABLE-BEGIN -->") + len("<!-- STATUS-TABLE-BEGIN -->")
b = s.index("<!-- STATUS-TABLE-END -->")
s = s[:a] + "\n" + st + "\n" + s[b:]
open(p, "w").write(s)
print(len(rows), "rows,", caught, "caught")
