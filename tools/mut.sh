#!/bin/bash
# usage: tools/mut.sh <worktree> <check id> <file> <python-expr old> <new>   (single replacement; reverts afterwards)
wt="$1"; id="$2"; file="$3"; old="$4"; new="$5"
/venv/bin/python - "$wt/$file" "$old" "$new" <<'PY' || exit 3
import sys
p, old, new = sys.argv[1:4]
s = open(p).read()
if s.count(old) < 1:
    print("MUT: pattern not found"); sys.exit(3)
open(p, "w").write(s.replace(old, new, 1))
PY
XV_REPO="$wt" timeout 600 /verif/check "$id" --tier quick 2>&1 | grep -E "^VIOLATION|^\[$id\]|TOOL-ERROR" | cut -c1-220 | head -6
echo "exit=${PIPESTATUS[0]}"
git -C "$wt" checkout -- . 
