#!/venv/bin/python
"""Markdown table of the independently written property-breaking changes under /verif/seeded."""
import glob, json, os, re
V = os.path.dirname(os.path.dirname(os.path.abspath(__file__)))
rows = []
for mf in sorted(glob.glob(os.path.join(V, "seeded", "*", "meta.json"))):
    m = json.load(open(mf))
    d = os.path.dirname(mf)
    notes = open(os.path.join(d, "notes.md")).read() if os.path.exists(os.path.join(d, "notes.md")) else ""
    first = next((l.strip("# ").strip() for l in notes.splitlines() if l.strip()), "")
    chk = m.get("checks", {})
    res = "; ".join(f"{p}: {'exit 1, ' + str(c['violation_lines']) + ' VIOLATION line(s)' if c['exit'] == 1 else ('TOOL-ERROR/timeout' if c['exit'] not in (0, 1) else 'silent')} ({c['wall_s']} s)" for p, c in chk.items())
    key = ""
    for c in chk.values():
        if c.get("first"):
            mm = re.search(r"# (.*)$", c["first"][0])
            key = (mm.group(1) if mm else "")[:110]
            break
    hist = [e.get("detected") for e in m.get("earlier_runs", [])]
    first_try = "first run" if not hist or hist[0] else ("missed at first; caught after the check was strengthened" if m.get("detected") else "missed")
    if m.get("detected") and hist and not hist[0]:
        first_try = "missed at first; caught after the check was strengthened"
    elif m.get("detected"):
        first_try = "caught as delivered" if (not hist or all(hist)) else "caught (an intermediate run missed it)"
    else:
        first_try = "missed"
    rows.append((m["name"], first[:150].replace("|", "\\|"), "yes" if m.get("valid") else "NO", "yes" if m.get("tests_ok") else ("?" if "tests_ok" not in m else "no"), "**caught**" if m.get("detected") else "missed", first_try, res.replace("|", "\\|"), key.replace("|", "\\|")))
print("| Seeded change | What it does (author's notes) | demo fails only with it | stable tests pass | Verdict | History | Check result (tier " + "quick unless noted) | First violation key |")
print("|---|---|---|---|---|---|---|---|")
for r in rows:
    print("| " + " | ".join(r) + " |")
