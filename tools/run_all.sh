#!/bin/bash
# usage: tools/run_all.sh [quick|thorough] [seed]   - runs every claimed check once, prints verdict + wall time
cd "$(dirname "$0")/.." || exit 2
tier=${1:-quick}; seed=${2:-0}
for id in $(/venv/bin/python -c "import json; print(' '.join(c['property_id'] for c in json.load(open('MANIFEST.json'))['checks']))"); do
  t0=$(date +%s)
  VERIF_SEED=$seed timeout 3600 ./check $id --tier $tier > /dev/shm/runall.$id.log 2>&1
  rc=$?
  t1=$(date +%s)
  echo "$id rc=$rc wall=$((t1-t0))s known=$(grep -c '^KNOWN-FINDING' /dev/shm/runall.$id.log) viol=$(grep -c '^VIOLATION' /dev/shm/runall.$id.log) $(grep -c 'TOOL-ERROR' /dev/shm/runall.$id.log | sed 's/^0$//;s/^[1-9].*/TOOL-ERROR/')"
done
