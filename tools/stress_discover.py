#!/venv/bin/python
"""Discovery aid, NOT a check (sampling, free-running): loops mixed command lines through the real Execer
in N parallel shim-free processes with a faulthandler watchdog, and reports hangs / exceptions / wrong
captures.  Used to find shared state the schedule-exhaustive harnesses had not been told about (see
DESIGN 8.3, fix 39a8604); whatever it finds is then reproduced under the scheduler.

usage: PYTHONPATH=/repo:/verif tools/stress_discover.py [iterations=300] [watchdog_seconds=150]"""
import collections
import faulthandler
import os
import sys
import time
import traceback

sys.path.insert(0, os.path.dirname(os.path.dirname(os.path.abspath(__file__))))
from xv import common  # noqa: E402
from xv.session import load_session  # noqa: E402

n = int(sys.argv[1]) if len(sys.argv) > 1 else 300
wd = int(sys.argv[2]) if len(sys.argv) > 2 else 150
d = common.scratch_dir("stress")
X = load_session(data_dir=d, path=["/usr/bin", "/bin"], env={"XONSH_SUBPROC_RAISE_ERROR": False, "XONSH_SUBPROC_CMD_RAISE_ERROR": False, "THREAD_SUBPROCS": True})


def a(args, stdin=None, stdout=None):
    stdout.write("hello\n")
    return 0


def b(args, stdin=None, stdout=None):
    stdout.write(stdin.read() if stdin else "")
    return 0


X.aliases["aa"] = a
X.aliases["bb"] = b
faulthandler.dump_traceback_later(wd, exit=True)
SRCS = [
    ("aa > /dev/null\nx = 'ok'", "ok"), ("aa | bb > /dev/null\nx = 'ok'", "ok"), ("x = $(aa)", "hello"), ("x = $(aa | bb)", "hello"),
    ("![aa] and ![aa | bb]\nx = 'ok'", "ok"), ("x = $(echo hi)", "hi"), ("x = $(echo hi | cat)", "hi"), ("x = $(aa | cat)", "hello"),
    ("x = $(echo hi | bb)", "hi"), ("x = !(echo hi).out", "hi"), ("x = $(seq 1 2000 | head -n1)", "1"), ("x = $(aa | bb | cat)", "hello"),
    ("x = $(sh -c 'echo hi; exit 3')", "hi"),
]  # fmt: skip
errs, bad = collections.Counter(), collections.Counter()
for i in range(n):
    for s, w in SRCS:
        with open(os.path.join(d, "current"), "w") as f:
            f.write(repr((i, s)))
        try:
            X.ctx.pop("x", None)
            X.execer.exec(s + "\n", glbs=X.ctx)
            if X.ctx.get("x") != w:
                bad[(s, repr(X.ctx.get("x"))[:40])] += 1
        except Exception as e:  # noqa: BLE001
            tb = traceback.extract_tb(e.__traceback__)
            errs[(s, type(e).__name__, str(e)[:60], tb[-1].name, tb[-1].lineno)] += 1
for k, v in errs.items():
    print("ERR", v, k)
for k, v in bad.items():
    print("BAD", v, k)
import threading  # noqa: E402

print("done", n * len(SRCS), "threads", threading.active_count(), "fds", len(os.listdir("/proc/self/fd")))
