#!/venv/bin/python
"""Evaluate one independently written property-breaking change.

usage: tools/seed_eval.py <PID> <src_dir> <name> [--tier quick|thorough] [--also PID2 ...]
  src_dir holds patch.diff, demo.py|demo.sh, notes.md (written by a sub-agent that never saw /verif).
Confirms: demo passes on a clean worktree of /repo HEAD, fails with the patch; the test files named in
notes.md pass with the patch; then runs ./check <PID> against the patched worktree and records
everything under /verif/seeded/<name>/ (patch.diff, demo, notes.md, meta.json).  The worktree is removed."""
import json, os, re, shutil, subprocess, sys, time

V = os.path.dirname(os.path.dirname(os.path.abspath(__file__)))


def sh(cmd, cwd=None, env=None, timeout=1800):
    try:
        p = subprocess.run(cmd, shell=True, cwd=cwd, env=env, capture_output=True, text=True, timeout=timeout)
        return p.returncode, p.stdout + p.stderr
    except subprocess.TimeoutExpired as e:
        return 124, f"TIMEOUT after {timeout}s\n" + (e.stdout or "" if isinstance(e.stdout, str) else "")


def main():
    pid, src, name = sys.argv[1:4]
    tier = "quick"
    also = []
    args = sys.argv[4:]
    if "--tier" in args:
        tier = args[args.index("--tier") + 1]
    if "--also" in args:
        also = args[args.index("--also") + 1 :]
    wt = f"/tmp/eval-{name}"
    sh(f"git -C /repo worktree remove --force {wt}")
    rc, out = sh(f"git -C /repo worktree add --detach {wt} HEAD")
    assert rc == 0, out
    meta = {"property": pid, "name": name, "repo_head": sh("git -C /repo log --format=%h -1")[1].strip(), "tier": tier}
    try:
        demo = "demo.py" if os.path.exists(os.path.join(src, "demo.py")) else "demo.sh"
        runner = "/venv/bin/python -B" if demo.endswith(".py") else "bash"
        env = dict(os.environ, PYTHONPATH=wt, PYTHONDONTWRITEBYTECODE="1")
        for var in ("XONSH_TREE", "XONSH_WT", "WT", "XONSH_REPO", "XONSH_SRC", "REPO", "REPO_ROOT", "WORKTREE"):
            env[var] = wt  # demos locate the tree through various variables or relative to their own file
        env.pop("XONSH_XONSH_VERIF", None)
        shutil.copy(os.path.join(src, demo), f"/tmp/eval-{name}.{demo}")
        text = open(f"/tmp/eval-{name}.{demo}").read()
        # demos were written against the author's worktree path: retarget
        m = re.findall(r"/tmp/mut[2345]?/\w+/wt", text)
        for old in set(m):
            text = text.replace(old, wt)
        text = text.replace('os.path.normpath(os.path.join(HERE, "..", "..", "wt"))', repr(wt))
        open(f"/tmp/eval-{name}.{demo}", "w").write(text)
        rc0, out0 = sh(f"{runner} /tmp/eval-{name}.{demo}", cwd=wt, env=env, timeout=300)
        if rc0 != 0:  # load-induced timeouts in demos that spawn shells: once more
            rc0, out0 = sh(f"{runner} /tmp/eval-{name}.{demo}", cwd=wt, env=env, timeout=600)
        meta["demo_clean_rc"] = rc0
        rc, out = sh(f"git -C {wt} apply {os.path.join(src, 'patch.diff')}")
        meta["patch_applies"] = rc == 0
        if rc != 0:
            meta["patch_error"] = out[-500:]
        rc1, out1 = sh(f"{runner} /tmp/eval-{name}.{demo}", cwd=wt, env=env, timeout=300)
        meta["demo_patched_rc"] = rc1
        meta["demo_patched_tail"] = out1[-600:]
        notes = open(os.path.join(src, "notes.md")).read() if os.path.exists(os.path.join(src, "notes.md")) else ""
        found = re.findall(r"tests/[\w/.]+", notes)
        if not found:  # "same files as change 1"
            sib = os.path.join(os.path.dirname(src.rstrip("/")), "1", "notes.md")
            if os.path.exists(sib):
                found = re.findall(r"tests/[\w/.]+", open(sib).read())
        tests = sorted({t.rstrip("/.") for t in found})
        tests = [t for t in tests if not any(t != u and t.startswith(u + "/") for u in tests)]
        tests = [t for t in tests if os.path.exists(os.path.join(wt, t))]
        meta["test_files"] = tests
        if tests:
            import xml.etree.ElementTree as ET

            stable = set(json.load(open("/root/.vp/BASELINE.json"))["stable_pass"])
            xml = f"/tmp/eval-{name}.junit.xml"
            rc, out = sh(f"/venv/bin/python -m pytest -q -p no:cacheprovider -n 4 --timeout=600 --junitxml={xml} {' '.join(tests)} 2>&1 | tail -3", cwd=wt, env=env, timeout=2400)
            meta["tests_tail"] = out[-300:]
            failing = []
            if os.path.exists(xml):
                for tc in ET.parse(xml).getroot().iter("testcase"):
                    if any(ch.tag in ("failure", "error") for ch in tc):
                        n = f"{tc.get('classname')}::{tc.get('name')}"
                        if n in stable:
                            failing.append((n, tc.get("file") or tc.get("classname").replace(".", "/") + ".py", tc.get("name")))
            still = []
            for n, f, t in failing:  # load-induced timeouts: retry alone, serially
                rc, out = sh(f"/venv/bin/python -m pytest -q -p no:cacheprovider --timeout=600 '{f}::{t}' 2>&1 | tail -2", cwd=wt, env=env, timeout=900)
                if " passed" not in out or " failed" in out:
                    still.append(n)
            meta["stable_tests_failing_first_pass"] = [n for n, _, _ in failing]
            meta["stable_tests_failing_after_retry"] = still
            meta["tests_ok"] = not still
        results = {}
        for p in [pid] + also:
            t0 = time.time()
            rc, out = sh(f"XV_REPO={wt} timeout 3000 {V}/check {p} --tier {tier}", cwd=V, timeout=3100)
            viol = [l for l in out.splitlines() if l.startswith("VIOLATION")]
            results[p] = {"exit": rc, "violation_lines": len(viol), "first": [v[:260] for v in viol[:3]], "wall_s": round(time.time() - t0, 1), "tool_error": [l for l in out.splitlines() if "TOOL-ERROR" in l][:2]}
        meta["checks"] = results
        meta["detected"] = any(r["exit"] == 1 and r["violation_lines"] for r in results.values())
        meta["valid"] = bool(meta["demo_clean_rc"] == 0 and meta["patch_applies"] and meta["demo_patched_rc"] not in (0,))
    finally:
        sh(f"git -C /repo worktree remove --force {wt}")
        for f in os.listdir("/tmp"):
            if f.startswith(f"eval-{name}."):
                os.unlink(os.path.join("/tmp", f))
    dst = os.path.join(V, "seeded", name)
    os.makedirs(dst, exist_ok=True)
    prev = os.path.join(dst, "meta.json")
    if os.path.exists(prev):
        try:
            old = json.load(open(prev))
            meta["earlier_runs"] = old.get("earlier_runs", []) + [{"verif_head": old.get("verif_head"), "detected": old.get("detected"), "checks": old.get("checks")}]
        except Exception:
            pass
    meta["verif_head"] = sh(f"git -C {V} log --format=%h -1")[1].strip()
    for f in ("patch.diff", "demo.py", "demo.sh", "notes.md"):
        if os.path.exists(os.path.join(src, f)) and os.path.realpath(src) != os.path.realpath(dst):
            shutil.copy(os.path.join(src, f), dst)
    json.dump(meta, open(os.path.join(dst, "meta.json"), "w"), indent=1)
    print(json.dumps({k: meta[k] for k in ("name", "valid", "detected", "demo_clean_rc", "demo_patched_rc", "tests_ok", "checks") if k in meta}, indent=1)[:1500])


if __name__ == "__main__":
    main()
