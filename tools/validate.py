#!/usr/bin/env python3-vt
"""Validate MANIFEST.json and every evidence file against the given schemas (own CI helper)."""
import json, sys, os, glob
import jsonschema
V = os.path.dirname(os.path.dirname(os.path.abspath(__file__)))
ms = json.load(open('/root/.vp/MANIFEST.schema.json')); es = json.load(open('/root/.vp/EVIDENCE.schema.json'))
m = json.load(open(os.path.join(V, 'MANIFEST.json')))
jsonschema.validate(m, ms)
props = [json.loads(l)['id'] for l in open(os.path.join(V, 'properties.jsonl'))]
claimed = [c['property_id'] for c in m['checks']]
na = [c['property_id'] for c in m.get('not_applicable', [])]
assert sorted(claimed + na) == sorted(props), (sorted(set(props) - set(claimed) - set(na)), 'unaccounted')
bad = 0
for c in m['checks']:
    p = os.path.join(V, c['evidence_file'])
    if not os.path.exists(p):
        print('missing evidence', p); bad += 1; continue
    e = json.load(open(p))
    try:
        jsonschema.validate(e, es)
        assert e['level'] == c['level_claimed']['category'], 'level mismatch'
        print('ok', c['property_id'], e['tier'], e['level'], e['wall_s'])
    except Exception as ex:
        print('INVALID', p, str(ex)[:300]); bad += 1
sys.exit(1 if bad else 0)
