#!/venv/bin/python
"""Compare a junit xml of the repository suite with BASELINE.json's stable_pass list."""
import json, sys
import xml.etree.ElementTree as ET
b = json.load(open('/root/.vp/BASELINE.json'))
sp = set(b['stable_pass'])
root = ET.parse(sys.argv[1]).getroot()
passed = set()
for tc in root.iter('testcase'):
    bad = any(ch.tag in ('failure', 'error', 'skipped') for ch in tc)
    if not bad:
        passed.add(f"{tc.get('classname')}::{tc.get('name')}")
missing = sorted(sp - passed)
print(f"stable_pass={len(sp)} passed_now={len(passed)} stable_not_passing={len(missing)}")
for m in missing[:40]:
    print("  MISSING", m)
sys.exit(1 if missing else 0)
