#!/venv/bin/python
"""Regenerate MANIFEST.json from the table below (single source of truth for claims)."""
import json
import os

V = os.path.dirname(os.path.dirname(os.path.abspath(__file__)))

BASELINE = "cd /repo && env -u XONSH_XONSH_VERIF /venv/bin/python -m pytest -ra -q -p no:cacheprovider --timeout=900 --continue-on-collection-errors"

# id -> (category, technique, engine, level text, level note, design ref)
CLAIMS = {
    "C15": (
        "exploration",
        "bounded-exhaustive enumeration of all alias tables x definition orders x lines against a reference expander",
        "gramx",
        "Every alias table over 3 names x 22 (thorough 31) alias kinds - every graph shape incl. self-loops and 2/3-cycles - in every definition order and for every invoked line is pushed through the real Aliases.get and SubprocSpec.build and compared with a 30-line reference expander; exec-alias cycles are executed for the run-time termination clause. Exhaustive within the stated bounds, which is the right level because expansion is a pure function of (table, line).",
        "Trusts the reference expander (xv/c15.py ref_expand), that alias words need no path/env expansion, and the small-scope hypothesis beyond 3 names.",
        "DESIGN.md §3 C15",
    ),
    "C16": (
        "model_checking",
        "explicit-state BFS over cd/pushd/popd/dirs histories executed on the real aliases, invariants + reference for +N/-N",
        "seqx",
        "Breadth-first search over all histories (depth 4 quick / 6 thorough, 62-event alphabet incl. env toggles, a vanishing directory, an external chdir + _fix_cwd, and the path-literal cd() context manager built at one state and entered at a later one) of the real cd/pushd/popd/dirs aliases on a real symlinked tree in a capability-dropped process; every transition is checked against the clauses of the statement (samefile($PWD,cwd), $OLDPWD, failed op changes nothing and reports, size bound, pushd;popd identity, documented +N/-N selection and rotation). States are deduplicated on a canonical projection, so the claim is 'all reachable states up to the completed depth'.",
        "Trusts the reference selection rules written from the command docstrings; relative `pushd -n` arguments, Windows UNC branches and power-loss are out of scope; if capset is refused the unsearchable-directory symbols lose their meaning (recorded in evidence).",
        "DESIGN.md §3 C16, §9",
    ),
    "C11": (
        "model_checking",
        "explicit-state BFS over a scope language (swap/overlay/DELETE_VAR/exit by return or exception/set/del) on the real Env; six read paths vs a reference layer stack; fresh-thread views",
        "seqx",
        "Breadth-first search over all histories (depth 4 quick / 6 thorough, nesting <= 3, 4 variables of different registration kinds) of the real Env.swap / overlay / mask / set / delete operations; on every state the six read paths ([], in, get, iteration, detype, detype_all) are compared with a reference stack of dict layers and with each other, a fresh thread checks that nothing of the scopes is visible elsewhere and that no thread-local residue survives the last exit.",
        "Trusts the reference layering (overlay shadows swap shadows global shadows default, from the swap() docstring); non-scoped set/del of a variable that an active scope overrides is outside the statement; the schedule quantifier is covered by the pysched part when present (see evidence.schedule_part).",
        "DESIGN.md §3 C11",
    ),
    "C20": (
        "model_checking",
        "explicit-state BFS over job start/exit/jobs/fg/bg/disown/purge histories on the real job-control functions with stub processes; lock-step dict+MRU reference; preemption-bounded schedules of main thread vs alias thread; every pipeline shape started through the real Execer for the registration decision",
        "seqx",
        "Breadth-first search over all histories (depth 7 quick / 10 thorough, <= 4 live jobs, 46-event alphabet incl. invalid arguments and commands issued from a worker thread under use_main_jobs) of the real add_job / jobs / fg / bg / disown / get_next_task; every transition is compared with a dict + MRU-list reference and the structural invariants of the statement. Schedule part: main-thread operations (add_job, get_next_task, a job-control command of its own) against an alias thread running jobs/bg/disown under use_main_jobs, all schedules with <= 2 (thorough 3) preemptions, final table must equal some sequential outcome. Registration part: every pipeline shape of <= 2 (thorough 3) stages over {real process, callable alias}, foreground and background, singly and as ordered pairs, is started through the real Execer in a fresh forked session; every background pipeline with a real process must appear once under the lowest free number with its pids, must end when its processes end, and must leave the table after a job-control command.",
        "Process objects, pipeline.resume, signals and terminal hand-over are stubs/recorders; multi-id disown is outside the alphabet; whether disown purges finished jobs first is not constrained.",
        "DESIGN.md §3 C20",
    ),
    "C12": (
        "model_checking",
        "exhaustive enumeration of append/flush/clear histories on the real JSON and SQLite back ends (reference list, sandwich oracle) + preemption-bounded exploration of the real flusher threads under a controlled scheduler",
        "seqx+pysched",
        "All operation histories up to depth 4 (thorough 5) over an index-arithmetic text alphabet, for JSON buffer sizes 1..3 and SQLite, under every subset of {ignoredups, ignoreerr, ignorespace}, are executed on the real back ends; after every operation len, every index (valid and the two adjacent invalid ones), negative indices, slices, History[i]/[a:b], items() and the on-disk decode through the LazyJSON index (or SQL rows) are compared with a reference list. The real JsonHistoryFlusher threads and the queue/condition ticket protocol are explored under all schedules with <= 2 (thorough 3) preemptions.",
        "Timestamps identify entries; the ignoredups rule is read leniently (nearest earlier command, also across clear); line-level atomicity in the scheduler; threading.Condition is replaced by a cooperative equivalent; SQLite and items() compare modulo trailing whitespace.",
        "DESIGN.md §3 C12",
    ),
    "C13": (
        "fault_enumeration",
        "crash-point / torn-write / short-write / failing-call enumeration over the recorded file-operation log (JSON, Python level) and over every mutating syscall via strace fault injection (SQLite, and JSON independently of the Python API used)",
        "crashx",
        "For every history-rewriting operation of the JSON back end (background flush, exit flush, delete, erasedups, stale-lock unlock) from several pre-states, the file-system operation log is recorded and then every crash point, every torn-write length (quick: 1, n/2, n-1; thorough: all) and every single failing call is executed in a forked child; each history file must afterwards load and equal its complete old or new version; every write is additionally answered short (1 or n/2 bytes accepted, the code continues). The same JSON operations run in a child under strace with $TMPDIR on another file system, and every mutating syscall (write, rename*, unlink*, ftruncate, sendfile, copy_file_range) touching the history directory or $TMPDIR is killed-at and failed. A read by index followed by a flush is one of the operations (a failing read must not wedge later saves: a run that never returns is a violation). For SQLite every mutating syscall on the database/journal is killed-at and failed (EIO) with strace injection and the table must be the complete old or new one with integrity_check ok; in addition the k-th SQL statement of every operation is made to fail (statement-level faults, for every k) with the same all-or-nothing oracle.",
        "Process-kill model (no lost page cache); CPython's real io stack decides what reaches the kernel; time.time constant inside the module; strace/ptrace must be permitted (otherwise the SQLite part is skipped and says so).",
        "DESIGN.md §3 C13",
    ),
    "C04": (
        "exploration",
        "bounded-exhaustive enumeration of argument strings x literal/injection forms x positions through the real Execer, argv compared on three delivery paths with a docs-derived reference",
        "gramx",
        "Every string of length <= 2 (thorough 3) over a 30-character metacharacter alphabet plus probe closure, in 19 writing forms (plain, quoted, raw, f-, triple-quoted, @() scalar/list/generator, glue, three macro forms), 5 positions and both $EXPAND_ENV_VARS settings is executed through Execer -> parser -> run_subproc; the argv observed by a threaded alias, an unthreaded alias and a real child process must agree with each other and with a reference written from the documentation.",
        "No NUL/lone surrogates; longer values only through probes; the child is a dash script; where the docs are silent (${NAME}, ~ after =, f-string formatting order) every reading is accepted; macro text that is unbalanced, ends in a backslash or contains # is out of scope.",
        "DESIGN.md §3 C04",
    ),
    "C07": (
        "exploration",
        "exhaustive enumeration of redirect spellings x stage kinds x positions x capture forms x targets executed in forked processes with harness-owned terminal fds, compared with a docs-derived router",
        "gramx",
        "Every documented and decoding-table redirect spelling (50) x stage kind x pipeline position x capture form x target state, all ordered pairs of operator classes on one stage, and the malformed / unusable-target forms are executed through the real Execer in a forked process whose fds 0/1/2 belong to the harness; file contents, next-stage stdin, capture value and terminal fds are compared with a table-driven router written from docs/tutorial.rst; documented spellings of one operator must be byte-identical.",
        "THREAD_SUBPROCS=True, non-interactive, non-tty terminal, <= 3 stages and <= 2 redirects per stage, well-behaved stages; no ordering between stdout and stderr bytes in one sink; merge-operator combinations may follow any of three documented readings.",
        "DESIGN.md §3 C07",
    ),
    "C10": (
        "model_checking",
        "exhaustive round trip of every registered variable over a validator-filtered value pool + explicit-state BFS over env histories with the real prep_env_subproc compared with a from-scratch detype",
        "seqx",
        "Part A converts every value of a 50-value pool that a registered variable's own validator accepts to its string form and back, for all ~160 registered variables and ENSURERS types, and builds a nested Env from the detyped mapping. Part B is a breadth-first search (depth 5 quick / 7 thorough) over set / delete / in-place mutation through a fresh read and through a held reference / swap / overlay / DELETE_VAR / UPDATE_OS_ENVIRON toggles / launch with per-command prefixes, where launch is the real SubprocSpec.prep_env_subproc; every mapping handed to a child is compared with a from-scratch detype of the reference's logical values (so the cache is never observable) and sampled against a real `env -0` child.",
        "Variables with an accept-anything validator or without converter/detyper have no defined value domain and are skipped; LC_* skipped; PATHEXT compared case-insensitively and abs_path after abspath (normalisation is the type); defaults are not exported.",
        "DESIGN.md §3 C10",
    ),
    "C14": (
        "exploration",
        "exhaustive enumeration of history-file collections x units x limit boundary values x force through the real GC on real files, against a reference selection",
        "gramx",
        "Every collection of up to 4 (thorough 5) history files (command counts 0-3, lock flag, corrupt members, all equal-timestamp patterns, stale-lock boot positions) x unit {files, commands, s, b} x every boundary value of the limit x force is pushed through the real JsonHistory.run_gc on real files written with the real writer (virtual clock/boot time), plus every truncation of a genuine file, 1184 spellings of the limit and all SQLite tables of <= 5 rows x keep 0..6; survivors are compared with a 25-line reference derived from the statement. Plus every depth-<=3 (thorough 4) sequence of flush / loss or corruption of the open session's file / GC pass on a real open JsonHistory (the open session's file is never collected; its lock flag equals a brand-new session's - differential oracle), and the real GC thread driven through its wait_for_shell handshake with the limit changed while it waits (the limit in force when the GC acts decides). The live-session sequences include the `history flush` command through the real alias; the boot time comes from the real uptime code on a simulated machine (suspended or not); every pass's unlink order is recorded and must be oldest-first (interrupted-pass safety).",
        "Ties between equal timestamps, the exact-age boundary and the refusal-equality boundary are accepted either way; one flusher and one collector at a time, no concurrent directory changes; limits >= 0; virtual time frozen during a sequence; the session file is never emptied to 0 bytes.",
        "DESIGN.md §3 C14",
    ),
    "C06": (
        "model_checking",
        "stateless preemption-bounded exploration of the real reader / proxy / pipeline threads under a controlled scheduler over real pipes",
        "pysched",
        "All schedules with <= 2 (thorough 3) preemptions of closed harnesses over the real classes: T1 = scripted writer + real NonBlockingFDReader/populate_fd_queue thread + consumer using the real read paths in the iterraw/_read_all patterns, for chunkings around the 1024-byte read size; T0 = concurrent closers of one PipeChannel followed by the next capture pipe (fd reuse); T2 = the real capture path ($(A), !(A), A | B, two and three commands in a row) with threaded callable-alias stages, including aliases that close their stdout or return their output, with the process-global sys.stdout/sys.stderr (played by sacrificial objects) as part of the shared state; T3 = the same path with a real child process single-stepped as a puppet through FIFOs; plus a free-running (not schedule-exhaustive) size sweep with real children beyond one pipe buffer. The bytes delivered must equal the bytes written, once and in order, the return code must be the final stage's, the session's standard streams must be its own and open afterwards, and no schedule may deadlock, livelock or raise.",
        "Line-level atomicity; payloads below one pipe buffer; os.read / queue.get / time.sleep / locks of the modules under test are cooperative shims (pipes and threads are real); external processes are not single-stepped (see DESIGN §4).",
        "DESIGN.md §3 C06",
    ),
    "C05": (
        "exploration",
        "bounded-exhaustive enumeration of and/or/pipe chain programs x exit-code assignments x raise-flag settings executed by the real Execer against a reference interpreter of docs/error_handling.rst",
        "gramx",
        "Every and/or chain tree with <= 3 (thorough 4) operands x operand form / decorator / text kind / pipeline deviations (k <= 1, thorough 2) x all reachable exit-code assignments x the four settings of the two raise flags x follower statement x statement kind is executed by the real Execer with recording aliases, plus a real-child `-c`/script subset for the exit status, and compared with a reference interpreter written from docs/error_handling.rst on the ordered run log, exception class/returncode and exit status.",
        "Aliases returning an int stand in for commands; && / || have Python and/or precedence (tutorial); combinations on which the docs are silent (truthiness of a non-final $(), un-inspected !(), CMD flag vs !() / early pipeline stages, raising `if` conditions) are accepted either way.",
        "DESIGN.md §3 C05",
    ),
    "C17": (
        "exploration",
        "bounded-exhaustive enumeration of Python+xonsh forms x layouts (deviation bound) through the real formatter, compared via xonsh's own three-phase parse, idempotence and comment sequence",
        "gramx",
        "Every program of a ~240-form Python+xonsh grammar in up to 6 contexts under every layout with <= 1 (core forms <= 2) deviations from canonical over a 40+-symbol layout alphabet, plus all proper prefixes, is formatted with the real format_source / CLI; output and input must parse (Execer.parse) to the same location-free tree with strings, macro text and argv byte-exact, comments preserved in sequence, format(format(s)) == format(s), and rejected input must never be rewritten.",
        "Grammar variables are bound and command words unbound in the parse context; un-tokenisable means tokenize(tolerant=False) raises; small-scope hypothesis on layout deviations; root-cause keys come from repair transforms and the first tree-changing gap edit.",
        "DESIGN.md §3 C17",
    ),
    "C08": (
        "model_checking",
        "explicit-state BFS over real file-system / $PATH / cwd event histories; every lookup view compared with a POSIX search cross-checked against sh and shutil.which",
        "seqx",
        "Breadth-first search (depth 3 quick; depths 4/3/5 on three alphabets thorough) over create / delete / chmod / symlink / $PATH-edit / cd events on a real tree in a capability-dropped process with directory mtimes from a logical clock; on every state locate_executable, CommandsCache.locate_binary, `name in cache`, iteration of the cache and SubprocSpec.build(...).binary_loc are compared (by inode and PATH index) for bare and explicit names with a 15-line POSIX search that is itself cross-checked per state against shutil.which and /bin/sh (command -v + a real spawn).",
        "Directory mtimes advance by 1 s per create/delete and chmod leaves them alone (real FS behaviour above its timestamp granularity); states on which the three references disagree are skipped and counted; alias table empty; READ_DIR_ONCE directories and Windows PATHEXT out of scope.",
        "DESIGN.md §3 C08",
    ),
    "C19": (
        "model_checking",
        "explicit-state BFS over edit/touch/run/code-run/header-rewrite/read-only/delete histories of the real codecache entry points with an uncached-run oracle + exhaustive truncation/corruption and crash enumeration of cache entries",
        "seqx+crashx",
        "Breadth-first search (depth 4 quick / 6 thorough) over histories of the real run_script_with_cache / run_code_with_cache under all 16 cache-switch combinations, two namespaces and both code modes, with mtimes from a logical clock; every run is compared with an uncached run of the same source. Part 2 enumerates every truncation length of two cache entries, zero-filled tails, foreign-version headers, a directory / unreadable file in place of the entry, and every crash point, torn write and failing call of update_cache; part 3 replays a few histories through real `python -m xonsh` processes. Entry files are discovered by effect (no re-implementation of the naming).",
        "mtime granularity <= 1 s; nothing required while mtime(source) <= mtime(cache); a rebuild of a damaged entry is demanded only when the documented switches enable the cache and the directory is writable; bit flips that still unmarshal are undetectable.",
        "DESIGN.md §3 C19",
    ),
    "C09": (
        "fault_enumeration",
        "bounded-exhaustive enumeration of pipeline shapes, each run 3x in its own forked process with a before/after process-state snapshot, plus single-fault enumeration over every logged acquisition call",
        "crashx",
        "Every pipeline shape within the stated bounds (1-2 stages, thorough 3; 11-15 stage kinds incl. missing command, non-executable file, directory, raising / exiting / early-exiting aliases; 5 capture forms; 5 redirects; early-exit producer/consumer shapes) is executed three times through the real Execer in its own forked process; open fds (by kind), threads, children and zombies, cwd, sys.std*, signal handlers, environment and a behavioural Ctrl-C probe are compared before, after one and after three repetitions. For every 1- and 2-stage shape each logged acquisition (os.pipe, openpty, redirect open, Popen with 3 errors, Thread.start) is failed in turn in a fresh process and the same snapshot oracle applied.",
        "No controlling terminal in the case process (terminal hand-over not exercised); single faults only; races between stage threads are observed in real time, not enumerated: a scheduling-sensitive observation counts only when reproduced 3 out of 3; fds a finalizer closes are counted after gc.collect().",
        "DESIGN.md §3 C09",
    ),
    "C03": (
        "exploration",
        "bounded-exhaustive differential execution: every chain of <= 2 (thorough 3) command segments x statement positions rendered bare and as its hand-wrapped ![...] twin through the real Execer.parse / exec with recording aliases; every string over a 24-symbol token alphabet through Execer.parse under work budgets for the termination clause",
        "gramx",
        "Every chain of up to 2 (thorough 3) segments of up to 3 (4) words over the statement's word alphabet (plain words, quoted strings, $VAR, @(), $(), redirects, pipes, trailing &, --k=v, comma words), joined by and/or/&&/||/;, with up to 2 word or position deviations (top level, after ;, indented blocks to depth 3 with tab/2/4-space indents, sibling statements, one-line compound statements, backslash continuations before/after operators and inside segments) is rendered as a bare program and as a generator-wrapped explicit twin; both go through the real Execer.parse with the same bound names and are compared by location-free tree dump; differing trees are executed under every return-code assignment and both raise-flag settings with callable aliases recording argv, order, redirect targets and raise/no-raise. Part B feeds every string up to length 3 over the full 24-symbol token alphabet (length 4/5 on 16/10-symbol subsets; thorough one longer each) to Execer.parse(s, ctx=set()) under parser-call, work and CPU budgets: the outcome must be a program or a SyntaxError.",
        "Commands are callable aliases; ctx is builtins plus four bound names; trees that differ only in the in_boolop keyword are decided by running the minimal form; lines with a trailing & are compared by tree only; a timing-dependent trace difference counts only when it repeats three times.",
        "DESIGN.md §3 C03",
    ),
    "C02": (
        "exploration",
        "bounded-exhaustive product of binder kinds x command-looking uses x scope placements through the real Execer, compared with ast.parse and CPython exec on instrumented objects with a spawn recorder",
        "gramx",
        "The full product of 95 binder kinds, 26 command-looking use shapes and scope placements to depth 2 (thorough 3), with statement wrappers, other-scope interludes, `del` forms and 22 syntactically broken tails, is pushed through the real Execer.parse / Execer.exec with every spawn recorded; the transformed tree must equal ast.parse (location-free), execution on instrumented objects must match CPython's exec (operation log, bindings, exception type) with no spawn, a line after `del n` must become the command again, and a broken tail must raise SyntaxError before anything of the input ran.",
        "mode='exec'; $XONSH_BUILTINS_TO_CMD unset; <= 3 read names; programs on which xonsh's pure parser disagrees with CPython (C01's business) or bare/explicit forms differ (C03's) are dropped and counted; names not bound earlier are out of scope.",
        "DESIGN.md §3 C02",
    ),
    "C01": (
        "exploration",
        "bounded-exhaustive differential parsing: every ASDL-derived typed AST within a deviation budget, respelled by a 23-rule layout/literal catalogue, through xonsh's parser (tables rebuilt from the tree) vs ast.parse, with deterministic minimisation to root-cause keys",
        "gramx",
        "Every typed AST derivable from the running interpreter's ASDL signatures within the deviation budget (quick: 0 deviations + <= 2 edits or 1 deviation; thorough: <= 3 edits, 1 deviation + 1 edit, 2 deviations on a reduced alphabet) is rendered by ast.unparse and respelled by every instance of a 23-rule catalogue (inter-token gaps, parentheses, trailing commas, string/number respellings, statement layout, continuation lines, CRLF ...); every text CPython accepts is parsed by xonsh.parser.Parser in exec/eval/single mode and compared with CPython's own tree modulo compiler-invisible fields, plus compile() success. Failures are minimised deterministically to (signature, minimal program) keys.",
        "Python 3.12 grammar; locations, Constant.kind, type comments and absent-vs-empty fields ignored; the parser is driven the way Execer drives it (final newline added for exec/single, stripped for eval); xonsh-only syntax out of scope.",
        "DESIGN.md §3 C01",
    ),
    "C18": (
        "exploration",
        "bounded-exhaustive enumeration of file names x kinds x quote styles x typed prefixes through the real Completer, shell-style splice and real execution; all short strings x cursors through the completion-context analyser",
        "gramx",
        "Every name of length <= 2 (thorough 3) over 31 hostile symbols plus keyword names x file/dir x 8 opening-quote styles x every admissible typed prefix (with and without an already typed closing quote) goes through the real Completer.complete with only the path completer registered, is spliced the way the prompt-toolkit shell does and executed with a recording alias: argv must be exactly [name]. Part 2 feeds every string of length <= 4 (thorough 5, and 6 on 8 symbols) x every cursor position to the real CompletionContextParser: it must never raise and prefix/suffix must reproduce the text around the cursor.",
        "Only the path completer; the completed word is the second word; single-entry directory; prompt-toolkit splice semantics; a typed prefix is admitted only if the real analyser reads it as a command argument whose value is a prefix of the name; first-word ./name completion and cursors after a closed quote not covered.",
        "DESIGN.md §3 C18",
    ),
}

NOT_YET = "check not built yet (work in progress in this round; see DESIGN.md §3 for the planned exploration)"

ENGINES = [
    {"name": "crashx", "path": "xv/crashx.py", "serves_properties": ["C09", "C13", "C19"], "kind_free_text": "records the file-operation log of a write history through shims bound into the module under test, then enumerates every crash point, torn write and failing call in forked children; strace syscall injection for libsqlite3"},
    {"name": "pysched", "path": "xv/pysched.py", "serves_properties": ["C06", "C11", "C12"], "kind_free_text": "stateless preemption-bounded exploration of real CPython threads: baton scheduler, line-event scheduling points in named functions, cooperative Lock/Condition/sleep/join shims, DFS over choice prefixes with replay-divergence detection"},
    {"name": "seqx", "path": "xv/seqx.py", "serves_properties": ["C08", "C10", "C11", "C12", "C16", "C19", "C20"], "kind_free_text": "explicit-state breadth-first search whose transitions call the real entry points on a freshly replayed implementation; canonical state hashing; lock-step reference"},
    {"name": "gramx", "path": "xv/", "serves_properties": ["C01", "C02", "C03", "C04", "C05", "C07", "C14", "C15", "C17", "C18"], "kind_free_text": "bounded-exhaustive enumeration of structured inputs run through the real implementation, compared with a reference"},
]


def main():
    props = [json.loads(l)["id"] for l in open(os.path.join(V, "properties.jsonl"))]
    checks = []
    for pid in props:
        if pid not in CLAIMS:
            continue
        cat, tech, eng, text, note, ref = CLAIMS[pid]
        checks.append(
            {
                "property_id": pid,
                "quick_cmd": f"./check {pid} --tier quick",
                "thorough_cmd": f"./check {pid} --tier thorough",
                "evidence_file": f"evidence/{pid}.json",
                "replay_cmd_template": f"./check {pid} --replay {{path}}",
                "engine": eng,
                "level_claimed": {"category": cat, "text": text, "design_ref": ref},
                "level_note": note,
                "technique": tech,
            }
        )
    m = {
        "version": 1,
        "setup_cmd": "./setup.sh",
        "hooks": {
            "guard": "XONSH_XONSH_VERIF",
            "enable": "environment variable XONSH_XONSH_VERIF=1 exported by ./check (no source hooks are needed so far: all interception is done from outside by rebinding module globals and sys.settrace)",
            "baseline_off_cmd": BASELINE,
            "source_commits": [],
            "add_only": True,
        },
        "engines": ENGINES,
        "checks": checks,
        "not_applicable": [{"property_id": p, "reason": NOT_YET} for p in props if p not in CLAIMS],
        "notes": "All checks explore the real implementation imported from /repo's working tree (PYTHONPATH=/repo), with parser tables regenerated from the working tree into /verif/.build. known_findings.json lists genuine defects recorded rather than repaired.",
    }
    with open(os.path.join(V, "MANIFEST.json"), "w") as f:
        json.dump(m, f, indent=1)
        f.write("\n")
    print("claimed:", [c["property_id"] for c in checks])


if __name__ == "__main__":
    main()
